"""C10 - JSON/XML data-model round trip preserves values, shapes, units, system content."""
import copy
import io
import os
import shutil
import tempfile

import numpy as np

from ..core import Clause, Violation, require, jdump
from .. import gens
from .. import gens_c10 as g

# Generator classes of the cross-pollination round (seeded/INDEX.md, DESIGN 8.3) and where they live here:
#   A result ledger ................ clause history (Ledger: every model / object handed out, re-judged bit for bit after every step)
#   B caller-side mutation ......... labels caller_in / caller_out / keep_kw in value, box, atoms, system, elastic; clause history
#                                    (min / mout steps); inputs bit-identical after every call in every clause
#   C storage and input dtypes ..... labels dt*, atype_dt*, pos_dt*, prop_dt*, readonly, form_tuple (layouts lay_* were there)
#   D working-unit configuration ... cfgW / cfgR in every clause since the first version; reset_units / rebuild steps in history
#   E near-threshold values ........ tiny_* (cells), near_face (coordinates), near_sym* (elastic tensors)
#   F many decades in one call ..... decades, decades_unit, row_alone (value), prop_decades (atoms, system)
#   G exactly structured inputs .... sym, sym_diag, sym_perm, lowertri_neg, lefthanded, exact_rel, relabelled
#   H enumerated option combinations clause options
RULE = ("a value (rank 0-4, int/float, Python or numpy form, optional error), a Box (cells as C01), an Atoms or a System "
        "(1-8 atoms, 1-3 types, symbols/masses missing, short, with holes; int/float/string properties of rank 1-3, unit "
        "per property from 28 unit strings, None or 'scaled') or an ElasticConstants (positive definite tensors of 7 "
        "crystal families, matching/no normalisation) is built under a *writing* working-unit configuration, written to "
        "the data model (DataModelDict, JSON text, XML text; System also through dump('system_model') to text, stream and "
        "file path), and read back under a *reading* configuration (named choices containing length, random seeds, SI; "
        "3 in 4 pairs differ).  Arrays are handed to atomman in six memory layouts with identical shape and numbers "
        "(C-contiguous, transposed view, Fortran-ordered copy, last two axes swapped, every second element of a larger C or "
        "Fortran array).  A Box that receives a model with model(model=...) exists beforehand with a different cell, alone "
        "or inside a System, and has had its reciprocal vectors read / a Cartesian-to-relative conversion / a box-scaled "
        "System.model done; afterwards its reciprocal vectors, both position maps and a box-scaled System.model are compared "
        "with own numpy arithmetic on generated points.  Non-trivial: JSON or XML text AND (a 'scaled' property, or a property/value of rank >= 2, "
        "or writing and reading configurations differ).  "
        "Generator classes carried over from the other properties: STORAGE - value, error, pos, atype and property arrays also as "
        "float32 / float16 / big-endian floats (judged as the exact float64 image of the array handed in), int8 ... uint64 / "
        "big-endian / bool integers over the whole range of the type, numpy scalars of these types, read-only arrays, tuples; "
        "DECADES - one array whose elements span 8 to 18 orders of magnitude, every element judged relative to itself, one row "
        "handed in alone stored bit for bit as inside the array; NEAR-THRESHOLD - tilts of 1e-12 ... 1e-3 of the cell, relative "
        "coordinates 1e-12 ... 1e-3 off a face / an integer / a half, elastic tensors 1e-12 ... 1e-3 off the symmetry they are "
        "normalised to; STRUCTURED - exact signed axis permutations of the cell, lower-triangular cells with negative entries, "
        "renamed and reversed cell vectors, left-handed cells, coordinates exactly on faces, elastic tensors with renamed axes; "
        "CALLER - after every call what was handed in (arrays, objects, keyword arguments, the model read) is bit for bit what it "
        "was, then the caller overwrites it in place / through the setters, and the array or model it was handed out, and the "
        "earlier answers must not move; HISTORY - 4-11 steps of one caller in one process (write value / Box / System / "
        "ElasticConstants models, read any of them into new or existing objects, reset_units with or without re-expressing the "
        "objects, overwrite inputs, overwrite outputs) with a ledger of every model and object handed out, judged bit for bit "
        "after every later step and read once more at the end; OPTIONS - on one tilted system every combination and order of "
        "position unit (absent, None, angstrom, nm, scaled) x two vector properties (absent, unit, scaled) x prop_unit or "
        "prop_name+unit x box_unit x route and encoding, enumerated")
ASSUMPTIONS = [
    "numericalunits attributes are the unit table; uc.reset_units applies a configuration (decided by C09; choices "
    "without length, the open C09 finding, are not generated)",
    "Box construction from vectors and the relative<->Cartesian maps are decided by C01 (the oracle uses its own "
    "s.V+o arithmetic on the vectors the constructed Box reports)",
    "DataModelDict/xmltodict limits are not atomman's: XML cannot carry an empty list, cannot tell a one-element "
    "list from a scalar (shape (1,) may come back as ()), and reads number-like or constant-like strings as numbers "
    "(generated strings start with a letter that excludes inf/nan/true/false/none)",
    "json float repr round-trips exactly",
    "numpy's promotion rules are not atomman's: a float32 / float16 array divided by a Python float stays in its type, so a unit "
    "conversion of such an array is judged to 4 eps of the storage type (float16 only without unit: most unit factors are not "
    "float16 numbers); a list holding 2**63 or more next to a smaller integer is read by numpy as float64 (uint64 values stop at "
    "the int64 maximum)",
    "Atoms keeps the arrays it is given (documented, safecopy=False): the caller's overwriting of an input array is done on the "
    "object's own array as well; ElasticConstants' Cij setter zeroes terms up to 1e-9 of the largest one (modelled like Box's)",
]
LEVEL_TEXT = ("Generated round trips of unit-carrying values, boxes, atoms, systems and elastic tensors through the "
              "in-memory model, JSON and XML text (and dump/load of system_model to text, stream, file), written and read "
              "under different working units; every stored-with-unit quantity is compared as a physical value against "
              "the generating numbers, unit-less ones exactly.  Arrays are given in C, transposed, Fortran, axis-swapped and "
              "strided memory layouts; a Box that receives a model has another cell and used reciprocal vectors beforehand, and "
              "its reciprocal vectors, position maps and box-scaled storage are compared with own arithmetic afterwards.  Narrow, "
              "unsigned, big-endian, bool and read-only storage, arrays spanning many decades, almost and exactly structured cells, "
              "coordinates and tensors, caller-side overwriting of everything handed in or out, histories of one caller with a ledger "
              "of all results across reset_units, and the enumerated option combinations of System.model are part of the search.")
TECHNIQUE = ("round-trip against generating data; own unit factors from numericalunits; own s.V+o and (x-o).inv(V) for scaled "
             "storage and for a reloaded Box's derived quantities; memory-layout and storage-type variation of the inputs; "
             "bit-for-bit ledger of results and inputs over caller histories; enumerated option combinations")
WALL = {'quick': 75, 'thorough': 600}

EPS = 2.3e-16
# multiplicative chain x*f -> /parse(u) -> repr (exact) -> *parse(u)': <= ~20 roundings (powers, 3-factor products) = 4.4e-15;
# observed maximum 3.5e-16 over 4 000 cases
REL = 3e-14


def K(s):
    return 'C10:' + s


# ----------------------------------------------------------------------------- configuration helpers

def apply_cfg(cfg):
    import atomman.unitconvert as uc
    if cfg['kind'] == 'named':
        uc.reset_units(**cfg['units'])
    elif cfg['kind'] == 'seed':
        uc.reset_units(seed=cfg['seed'])
    else:
        uc.reset_units(seed='SI')


def restore_units():
    import atomman.unitconvert as uc
    uc.reset_units(length='angstrom', mass='amu', energy='eV', charge='e')


def factor(u):
    """value of one unit u in working units under the configuration active now (own evaluation, never uc.parse)"""
    import numericalunits as nu
    f = 1.0
    for name, p in g.UNITS[u]:
        f *= getattr(nu, name) ** p
    return f


def encode(m, enc, what, key=None, indent=None):
    """DataModelDict -> payload; a model that atomman built but json/xmltodict cannot serialise is a violation"""
    if enc == 'dict':
        return m
    try:
        return m.json(indent=indent) if enc == 'json' else m.xml(indent=indent)
    except Exception as e:                                   # raised outside atomman: report it ourselves
        raise Violation('%s: model.%s() raised %s: %s\nmodel: %r' % (what, enc, type(e).__name__, str(e)[:200], m), key=key)


def cfg_labels(case, labels):
    labels.add('enc_' + case['enc'])
    differ = case['cfgW'] != case['cfgR']
    if differ:
        labels.add('cfg_differ')
    for c in (case['cfgW'], case['cfgR']):
        labels.add('cfg_' + c['kind'])
    return differ


def rel_ok(got, exp, rel=REL):
    got = np.asarray(got, dtype=float)
    exp = np.asarray(exp, dtype=float)
    return got.shape == exp.shape and bool(np.all(np.abs(got - exp) <= rel * np.abs(exp)))


def worst(got, exp):
    got = np.asarray(got, dtype=float); exp = np.asarray(exp, dtype=float)
    if got.shape != exp.shape:
        return 'shape %r vs %r' % (got.shape, exp.shape)
    d = np.abs(got - exp)
    i = tuple(int(k) for k in np.unravel_index(int(np.argmax(d - REL * np.abs(exp))), d.shape)) if d.shape else ()
    return 'at %r: got %.17g expected %.17g' % (i, got[i], exp[i])


def check_array(what, got, shape, kind, exp, exact, tol=None, xml_len1=False, rel=REL):
    """shape, dtype kind and values of one array read back"""
    require(isinstance(got, (np.ndarray, np.generic)), lambda: '%s: read back as %r, not a numpy value' % (what, type(got)))
    got = np.asarray(got)
    if not (xml_len1 and got.shape == ()):
        require(got.shape == tuple(shape), lambda: '%s: shape %r read back as %r' % (what, tuple(shape), got.shape))
    else:
        got = got.reshape(shape)
    want = {'f': 'f', 'i': 'i', 's': 'U', 'b': 'b'}[kind]
    require(got.dtype.kind == want, lambda: '%s: dtype kind %r read back as %r (%s)' % (what, want, got.dtype.kind, got.dtype))
    if kind == 's':
        require(got.tolist() == exp, lambda: '%s: strings differ: wrote %r read %r' % (what, exp, got.tolist()))
    elif exact:
        require(np.array_equal(got, np.asarray(exp)), lambda: '%s (stored without unit): numbers differ, %s' % (what, worst(got, exp)))
    elif tol is not None:
        err = float(np.abs(got - exp).max())
        require(err <= tol, lambda: '%s: differs by %.3g (tol %.3g), %s' % (what, err, tol, worst(got, exp)))
    else:
        require(rel_ok(got, exp, rel), lambda: '%s: physical value differs beyond %.0e relative, %s' % (what, rel, worst(got, exp)))


_SENTINEL = {'f': np.nan, 'i': -7, 'u': 0, 'U': 'Q', 'b': False}

# ----------------------------------------------------------------------------- storage dtypes, bit-for-bit snapshots
# (eps, smallest normal, largest) of the narrow float types
_FINFO = {'f4': (1.1920929e-07, 1.1754944e-38, 3.4028235e+38), 'f2': (9.765625e-04, 6.1035156e-05, 65504.0)}


def narrow_rel(dt):
    """relative tolerance of one unit conversion of an array stored as dt: numpy divides a float32 array by a Python float in
    float32 (its documented promotion rule; the result is correct to the precision the caller chose): 4 eps of the storage type"""
    base = dt.lstrip('<>')
    return REL if base == 'f8' else REL + 4 * _FINFO[base][0]


def to_storage(xw, dt, f=None):
    """the float64 working-unit numbers xw as an array of dtype dt, or None when dt cannot hold them as normal numbers (nor
    the numbers divided by the unit factor f, nor f itself): the case then keeps float64"""
    base = dt.lstrip('<>')
    if base == 'f8':
        return xw.astype(dt)
    eps, tiny, big = _FINFO[base]
    ax = np.abs(np.asarray(xw, dtype=float))
    nz = ax[ax > 0]
    for fac in ((1.0,) if f is None else (1.0, 1.0 / abs(f))):
        if nz.size and (nz.max() * fac > 0.5 * big or nz.min() * fac < 2 * tiny):
            return None
    if f is not None and not (2 * tiny < abs(f) < 0.5 * big):
        return None
    return np.asarray(xw).astype(dt)


def bits(a):
    a = np.asarray(a)
    return (a.dtype.str, a.shape, a.tobytes() if a.dtype.kind != 'U' else repr(a.tolist()))


def scramble(v):
    """the caller overwrites a (nested) list in place; returns True when something was changed"""
    if isinstance(v, list) and v:
        if isinstance(v[0], list):
            return scramble(v[0])
        v[0] = 12345.5 if not isinstance(v[0], str) else 'Zz'
        v.reverse()
        return True
    return False


def scramble_model(m):
    """overwrite in place the first value list found in a DataModelDict the caller received"""
    for k in list(m.keys()):
        v = m[k]
        if k in ('value', 'error') and isinstance(v, list):
            return scramble(v)
        if isinstance(v, dict):
            if scramble_model(v):
                return True
        elif isinstance(v, list):
            for q in v:
                if isinstance(q, dict) and scramble_model(q):
                    return True
    return False


def overwrite(a):
    """the caller overwrites in place an array it owns (when it is writable); True when done"""
    if isinstance(a, np.ndarray) and a.ndim and a.flags.writeable and a.size:
        a[...] = _SENTINEL[a.dtype.kind] if a.dtype.kind != 'f' else -9.75
        return True
    return False


def lay(a, layout):
    """array with the shape and elements of a in the memory layout named (see gens_c10.LAYOUTS); never shares a"""
    a = np.array(a)                      # an own copy first: no layout below may hand the caller's array on
    if a.ndim == 0 or layout == 'C' or (layout == 'X' and a.ndim < 2):
        out = np.array(a, order='C')
    elif layout == 'T':
        out = np.ascontiguousarray(a.T).T if a.ndim >= 2 else np.array(a)     # what np.array([x, y, z]).T gives
    elif layout == 'F':
        out = np.array(a, order='F')
    elif layout == 'X':
        out = np.ascontiguousarray(a.swapaxes(-1, -2)).swapaxes(-1, -2)
    elif layout in ('S', 'SF'):
        big = np.full(tuple(2 * k + 1 for k in a.shape), _SENTINEL[a.dtype.kind], dtype=a.dtype, order='C' if layout == 'S' else 'F')
        sl = tuple(slice(1, 2 * k + 1, 2) for k in a.shape)
        big[sl] = a
        out = big[sl]
    else:
        raise ValueError(layout)
    assert out.shape == a.shape and out.dtype == a.dtype and np.array_equal(out, a)
    return out


def lay_labels(arr, layout, labels):
    """labels of one array of rank >= 2 given to atomman; True when it is not C-contiguous"""
    if arr.ndim < 2:
        if arr.ndim == 1 and not arr.flags['C_CONTIGUOUS']:
            labels.add('strided1d')
        return False
    labels.add('lay_' + layout)
    if arr.flags['C_CONTIGUOUS']:
        return False
    labels.add('nonC')
    if not arr.flags['F_CONTIGUOUS']:
        labels.add('nonC_nonF')
    return True


def scaled_tols(Vw, ow, smax):
    """(tol_s, tol_x): relative coordinates s = (x-o).inv(V) computed by atomman, and Cartesian x back from stored s.
    s = (x-o).inv(V): error <= c eps (|o| + |V||s|) |inv(V)|, c ~ 10 (one inverse, one product); observed maximum
    1/90 of tol_s and 1/600 of tol_x over 16 000 cell/point sets (cells of gens.cells at four length scales)"""
    vmax, omax = np.abs(Vw).max(), np.abs(ow).max()
    ninv = np.abs(np.linalg.inv(Vw)).sum(axis=0).max()
    tol_s = 3e-14 * (omax + vmax * smax) * ninv + 1e-15 * smax
    floor = bool(np.any((np.abs(Vw) > 0) & (np.abs(Vw) <= 1e-8 * vmax)))     # a component at Box's 1e-9 zeroing floor
    tol_x = 3 * tol_s * vmax + 3e-14 * (omax + vmax * smax) + (3e-8 * vmax * smax if floor else 0.0)
    return tol_s, tol_x


# ----------------------------------------------------------------------------- value: uc.model / uc.value_unit

def freeze(a, ro):
    if ro and isinstance(a, np.ndarray):
        a.flags.writeable = False
    return a


def as_tuple(v):
    return tuple(as_tuple(x) for x in v) if isinstance(v, list) else v


def decades_label(x, labels, name='decades'):
    ax = np.abs(np.asarray(x, dtype=float)).ravel()
    nz = ax[ax > 0]
    if nz.size >= 2 and nz.max() >= 1e8 * nz.min():
        labels.add(name)
        return True
    return False


def oracle_value(case):
    import atomman.unitconvert as uc
    from DataModelDict import DataModelDict as DM
    shape = tuple(case['shape']); kind = case['kind']; u = case['unit']; enc = case['enc']; form = case['form']
    dt = case.get('dtype') if form in ('np', 'np0d') else None
    labels = {'rank%d' % len(shape), 'unit' if u else 'nounit', 'kind_' + kind, 'form_' + form}
    differ = cfg_labels(case, labels)
    has_err = case['error'] is not None
    if has_err:
        labels.add('error')
    what = 'uc.model(%s %s%r%s, %r%s) via %s' % (form, 'int' if kind == 'i' else 'float', shape, ' stored as ' + dt if dt else '', u,
                                                 ', error' if has_err else '', enc)
    try:
        apply_cfg(case['cfgW'])
        fW = factor(u) if u else 1.0
        x = np.array(case['v'], dtype=float if kind == 'f' else np.int64)        # numbers in unit u (raw if u is None)
        xw = x * fW if u else x
        rel = REL
        outkind = 'i' if (kind == 'i' and u is None) else 'f'
        if dt and kind == 'f':
            st_ = to_storage(xw, dt, fW if u else None)
            if st_ is None:
                labels.add('dt_fallback')
            else:
                # what the array handed in stands for: its own numbers, exactly, as float64
                xw = st_
                x = st_.astype(float) / fW if u else st_.astype(float)
                rel = narrow_rel(dt) if u else REL
                labels.update(('dt', 'dt_float', 'dt_' + dt.lstrip('<>'), 'dt_unit' if u else 'dt_nounit'))
                if dt[0] == '>':
                    labels.add('dt_bigendian')
        elif dt and kind == 'i':
            # an integer array in a narrow / unsigned / big-endian / bool type; with a unit it is a quantity in working units
            xi = np.array(case['v'], dtype=np.int64)
            xw = (xi != 0) if dt == 'bool' else xi.astype(dt)
            x = xw.astype(np.int64) / fW if u else xw.astype(np.int64)
            if dt == 'bool' and u is None:
                outkind = 'b'
                x = xw
            labels.update(('dt', 'dt_int', 'dt_unit' if u else 'dt_nounit'))
            if dt[0] == '>':
                labels.add('dt_bigendian')
            lo, hi = g.INT_RANGE[dt]
            if dt != 'bool' and bool(np.any((xi == lo) | (xi == hi))):
                labels.add('dt_limit')
        ew = None
        if has_err:
            e = np.array(case['error'], dtype=float)
            ew = e * fW if u else e
        if form in ('py', 'tuple'):
            arg, earg = xw.tolist(), (ew.tolist() if has_err else None)
            if form == 'tuple':
                arg, earg = as_tuple(arg), as_tuple(earg)
        else:
            # rank 0: a numpy scalar ('np') or a 0-d array ('np0d')
            as_arr = bool(shape) or form == 'np0d'
            arg = freeze(lay(xw, case.get('layout', 'C')), case.get('ro')) if as_arr else np.asarray(xw)[()]
            earg = None if not has_err else freeze(lay(ew, case.get('elayout', 'C')), case.get('ro')) if as_arr else np.asarray(ew)[()]
            lay_labels(np.asarray(arg), case.get('layout', 'C'), labels)
            if has_err and lay_labels(np.asarray(earg), case.get('elayout', 'C'), set()):
                labels.add('error_nonC')
            if as_arr and case.get('ro'):
                labels.add('readonly')
        before = (bits(arg), bits(earg) if has_err else None) if isinstance(arg, np.ndarray) else jdump([arg, earg])
        try:
            m = uc.model(arg, u, earg) if has_err else uc.model(arg, u)
        except AttributeError as ex:
            if "'ndim'" in str(ex) and u is None and form in ('py', 'tuple'):
                raise Violation('%s raised %r: units=None skips the array conversion' % (what, ex), key=K('uc.model:no-unit-non-ndarray'))
            raise
        after = (bits(arg), bits(earg) if has_err else None) if isinstance(arg, np.ndarray) else jdump([arg, earg])
        require(before == after, lambda: '%s: the value / error handed in was modified by the call' % what)
        if u is None:
            require('unit' not in m, lambda: '%s: model has unit %r' % (what, m.get('unit')))
        else:
            require(m.get('unit') == u, lambda: '%s: model unit is %r' % (what, m.get('unit')))
        # storage is in the requested unit: largest stored magnitude equals largest generating magnitude
        smax, xmax = float(np.abs(np.asarray(m['value'], dtype=float)).max()), float(np.abs(np.asarray(x, dtype=float)).max())
        require(abs(smax - xmax) <= rel * xmax, lambda: '%s: stored numbers (max %.17g) are not the value in %r (max %.17g)' % (what, smax, u, xmax))
        if shape and decades_label(x, labels):
            if u:
                labels.add('decades_unit')
        if len(shape) >= 1 and shape[0] >= 2 and form in ('np', 'np0d'):
            # one row handed in alone is stored with the same numbers, bit for bit, as inside the whole array (the row holding the
            # smallest non-zero magnitude): nothing in the call is relative to the array as a whole
            ax = np.abs(np.asarray(x, dtype=float)).reshape(shape[0], -1)
            i = int(np.argmin(np.where(ax > 0, ax, np.inf).min(axis=1)))
            mr = uc.model(arg[i], u)
            full = np.asarray(m['value']).reshape(shape)[i]
            row = np.asarray(mr['value']).reshape(shape[1:])
            require(bits(full) == bits(row), lambda: '%s: row %d stored as %r inside the array, as %r when handed in alone'
                    % (what, i, full.tolist(), row.tolist()))
            labels.add('row_alone')
        key0 = None
        if not shape and isinstance(m['value'], (np.ndarray, np.integer)):
            key0 = K('uc.model:numpy-scalar-not-serialisable')      # a numpy object json/xmltodict do not know
        payload = encode(DM([('quantity', m)]), enc, what, key=key0)
        if enc == 'xml' and not shape and 'np.' in payload:
            raise Violation('%s: XML text carries a numpy repr and cannot be read back: %s' % (what, payload[payload.find('<quantity>'):][:160]),
                            key=K('uc.model:numpy-scalar-xml'))
        cm = bool(case.get('cm'))
        if cm:
            # the caller re-uses what it handed in: the model it holds must not move
            done = overwrite(arg) if isinstance(arg, np.ndarray) else scramble(arg)
            if has_err:
                done = (overwrite(earg) if isinstance(earg, np.ndarray) else scramble(earg)) or done
            if done:
                labels.add('caller_in')
        apply_cfg(case['cfgR'])
        fR = factor(u) if u else 1.0
        if enc == 'dict':
            term = m
        else:
            try:
                term = DM(payload)['quantity']
            except Exception as ex:
                raise Violation('%s: text cannot be parsed back (%r): %s' % (what, ex, payload[:300]))
        text0 = jdump(term)
        got = uc.value_unit(term)
        len1 = enc == 'xml' and shape == (1,)
        if len1:
            labels.add('xml_len1')
        exp = x * fR if u else x
        check_array(what, got, shape, outkind, exp, exact=u is None, xml_len1=len1, rel=rel)
        if has_err:
            require('error' in term, lambda: '%s: error missing from the model' % what)
            ge = uc.error_unit(term)
            check_array(what + ' [error]', ge, shape, 'f', e * fR if u else e, exact=u is None, xml_len1=len1)
        else:
            require('error' not in term, lambda: '%s: model has an error field' % what)
        if cm:
            # the caller overwrites the array it received: the model and a second reading must not move
            got2 = uc.value_unit(term)
            b2 = bits(got2)
            if overwrite(got):
                labels.add('caller_out')
            if has_err:
                overwrite(ge)
            require(bits(got2) == b2 and bits(uc.value_unit(term)) == b2,
                    lambda: '%s: overwriting the array uc.value_unit returned changed a second reading of the same model' % what)
        require(jdump(term) == text0, lambda: '%s: the model handed to uc.value_unit / error_unit was modified' % what)
    finally:
        restore_units()
    if enc != 'dict' and (len(shape) >= 2 or differ):
        labels.add('nt')
    return labels


# ----------------------------------------------------------------------------- box

def check_box(what, B, Vexp, oexp):
    """Vexp, oexp in the reading working units.  Box zeroes components below 1e-9 of the largest one (documented floor)."""
    Bv = np.asarray(B.vects, dtype=float); Bo = np.asarray(B.origin, dtype=float)
    require(Bv.shape == (3, 3) and Bo.shape == (3,), lambda: '%s: vects/origin shapes %r %r' % (what, Bv.shape, Bo.shape))
    vmax = np.abs(Vexp).max()
    ok = (np.abs(Bv - Vexp) <= REL * np.abs(Vexp)) | ((Bv == 0.0) & (np.abs(Vexp) <= 1.001e-9 * vmax))
    require(bool(ok.all()), lambda: '%s: cell differs: expected\n%r\ngot\n%r' % (what, Vexp, Bv))
    require(rel_ok(Bo, oexp), lambda: '%s: origin differs: expected %r got %r' % (what, oexp, Bo))


_PRIOR_V = np.array([[7.0, 0, 0], [0, 8.0, 0], [0, 0, 9.0]])
_PRIOR_O = np.array([1.0, 1.0, 1.0])
_SCALED_KW = {'box_unit': 'angstrom', 'prop_unit': {'atype': None, 'pos': 'scaled'}}


def check_derived(what, B, rel, uses, system=None, enc='dict'):
    """what a Box derives from its cell, against own numpy arithmetic on the vects/origin it reports (C01 decides the
    maps as such; here they must belong to the cell the Box holds *now*).  uses: 'recip' reciprocal_vects, 'c2r' both
    position maps at the points rel, 'scaled' a box-scaled System.model (of `system`, which holds B, or of a new System
    given B) and its reading back."""
    import atomman as am
    Bv, Bo = np.array(B.vects, dtype=float), np.array(B.origin, dtype=float)
    vmax, omax = np.abs(Bv).max(), np.abs(Bo).max()
    smax = max(1.0, float(np.abs(rel).max()))
    inv = np.linalg.inv(Bv)
    tol_s, tol_x = scaled_tols(Bv, Bo, smax)
    x = rel @ Bv + Bo
    s_exp = np.linalg.solve(Bv.T, (x - Bo).T).T
    for use in uses:
        if use == 'recip':
            R = np.asarray(B.reciprocal_vects, dtype=float)
            require(R.shape == (3, 3), lambda: '%s: reciprocal_vects shape %r' % (what, R.shape))
            # right residual of a computed inverse: |V X - I| <= c eps |V||X| (c ~ 10); observed maximum 1/40 of the bound
            tol_i = 1e-14 * (np.abs(Bv) @ np.abs(inv)).max() + 1e-15
            err = float(np.abs(Bv @ R.T - np.identity(3)).max())
            require(err <= tol_i, lambda: '%s: vects @ reciprocal_vects.T differs from the identity by %.3g (tol %.3g): vects\n%r\n'
                    'reciprocal_vects\n%r' % (what, err, tol_i, Bv, R))
        elif use == 'c2r':
            got = np.asarray(B.position_cartesian_to_relative(x), dtype=float)
            require(got.shape == rel.shape, lambda: '%s: position_cartesian_to_relative shape %r' % (what, got.shape))
            err = float(np.abs(got - s_exp).max())
            require(err <= tol_s, lambda: '%s: position_cartesian_to_relative(%r) = %r, own (x-o).inv(V) = %r (differs by %.3g, tol %.3g)'
                    % (what, x.tolist(), got.tolist(), s_exp.tolist(), err, tol_s))
            got = np.asarray(B.position_relative_to_cartesian(rel), dtype=float)
            tol_c = 1e-14 * (omax + 3 * vmax * smax)
            err = float(np.abs(got - x).max()) if got.shape == x.shape else np.inf
            require(err <= tol_c, lambda: '%s: position_relative_to_cartesian(%r) = %r, own s.V+o = %r (differs by %.3g, tol %.3g)'
                    % (what, rel.tolist(), got.tolist(), x.tolist(), err, tol_c))
        else:
            n = len(rel)
            if system is None:
                system = am.System(atoms=am.Atoms(atype=np.ones(n, dtype=np.int64), pos=x.copy()), box=B)
            else:
                system.atoms.view['pos'][:] = x             # the atoms sit at rel in the cell the box has now
            m = system.model(**_SCALED_KW)
            pm = [q for q in m['atomic-system']['atoms'].aslist('property') if q['name'] == 'pos'][0]
            require(pm['data'].get('unit') == 'scaled', lambda: '%s: scaled pos stored with unit %r' % (what, pm['data'].get('unit')))
            st_ = np.asarray(pm['data']['value'], dtype=float)
            require(st_.size == s_exp.size and float(np.abs(st_.reshape(s_exp.shape) - s_exp).max()) <= tol_s,
                    lambda: '%s: box-scaled System.model stores pos %r, own (x-o).inv(V) = %r (tol %.3g) for the cell\n%r origin %r'
                    % (what, st_.tolist(), s_exp.tolist(), tol_s, Bv, Bo))
            s3 = am.System(model=encode(m, enc, what + ' [scaled System.model]'))
            check_box(what + ' [scaled System.model read back]', s3.box, Bv, Bo)
            check_array(what + ' [scaled System.model read back] pos', s3.atoms.view['pos'], (n, 3), 'f', x, exact=False, tol=tol_x)


def rel_labels(s, labels):
    """classes of relative coordinates: almost on a face / almost integer or half (1e-12 .. 2e-3 away), exactly on it"""
    s = np.asarray(s, dtype=float)
    d = np.abs(s - np.round(2 * s) / 2)
    if bool(np.any((d > 0) & (d <= 2e-3) & (np.round(s, 4) != s))):
        labels.add('near_face')
    if bool(np.any(d == 0)):
        labels.add('exact_rel')


def oracle_box(case):
    import atomman as am
    c = case['cell']
    V, o = g.cell_vects10(c), gens.cell_origin(c)          # angstrom
    labels = g.cell_labels10(c)
    differ = cfg_labels(case, labels)
    unit = case['unit']
    u = 'angstrom' if unit == 'default' else unit
    labels.add('unit_default' if unit == 'default' else 'unit_given')
    what = 'Box.model(length_unit=%s) via %s' % (unit, case['enc'])
    rel = np.array(case.get('pts') or [[0.25, 0.5, 0.75]], dtype=float)
    rel_labels(rel, labels)
    prior = case.get('prior') or {'cell': None, 'host': False, 'uses': []}
    enc = case['enc']
    cm = bool(case.get('cm'))
    try:
        apply_cfg(case['cfgW'])
        fa = factor('angstrom')
        B = am.Box(vects=V * fa, origin=o * fa)
        b0 = (bits(B.vects), bits(B.origin))
        m = B.model() if unit == 'default' else B.model(length_unit=unit)
        require((bits(B.vects), bits(B.origin)) == b0, lambda: '%s: the Box was modified by writing its model' % what)
        for k in ('avect', 'bvect', 'cvect', 'origin'):
            require(m['box'][k].get('unit') == u, lambda: '%s: %s stored with unit %r' % (what, k, m['box'][k].get('unit')))
        fu = factor(u)
        stored = np.array([m['box'][k]['value'] for k in ('avect', 'bvect', 'cvect')], dtype=float)
        Vu = np.asarray(B.vects) / fu
        require(stored.shape == (3, 3) and bool(np.all(np.abs(stored - Vu) <= REL * np.abs(Vu))),
                lambda: '%s: stored vectors are not the cell in %s:\n%r\nexpected\n%r' % (what, u, stored, Vu))
        payload = encode(m, enc, what)
        if cm:
            # the caller goes on with the Box it wrote: the model it holds must not move
            B.vects = _PRIOR_V * (3.0 * fa)
            B.origin = _PRIOR_O * (-2.0 * fa)
            labels.add('caller_in')
        apply_cfg(case['cfgR'])
        fr = factor('angstrom')
        host = None
        text0 = jdump(payload)
        if case['ctor']:
            B2 = am.Box(model=payload)
            labels.add('fresh')
        else:
            # the receiving Box exists with another cell and has been used
            pc = prior['cell']
            Vp, op = (g.cell_vects10(pc), gens.cell_origin(pc)) if pc else (_PRIOR_V, _PRIOR_O)
            B2 = am.Box(vects=Vp * fr, origin=op * fr)
            if prior['host']:
                host = am.System(atoms=am.Atoms(atype=np.ones(len(rel), dtype=np.int64), pos=rel @ B2.vects + B2.origin), box=B2)
                B2 = host.box
                labels.add('in_system')
            uses = list(prior['uses'])
            wp = what + ' [before loading, receiving Box%s with its first cell]' % (' of a System' if host is not None else '')
            check_derived(wp, B2, rel, uses, system=host, enc=enc)
            labels.add('prior_used' if uses else 'prior_unused')
            for use in uses:
                labels.add('prior_' + use)
            if not np.allclose(Vp, V, rtol=1e-6, atol=0.0):
                labels.add('prior_cell_differs')
            ret = B2.model(model=payload)
            require(ret is None, lambda: '%s: model(model=...) returned %r' % (what, ret))
            what += ' into an existing Box%s (used before: %s)' % (' of a System' if host is not None else '', ', '.join(uses) or 'nothing')
        require(jdump(payload) == text0, lambda: '%s: the model handed in was modified by reading it' % what)
        if cm and enc == 'dict' and scramble_model(payload):
            labels.add('caller_out')                          # the caller overwrites the model it handed in: the Box must not move
        check_box(what, B2, V * fr, o * fr)
        check_derived(what + ' [after loading]', B2, rel, ('recip', 'c2r', 'scaled'), system=host, enc=enc)
    finally:
        restore_units()
    if case['enc'] != 'dict' and differ:
        labels.add('nt')
    return labels


# ----------------------------------------------------------------------------- atoms / system shared

def own_rel(x, Vw, ow):
    """own (x - o).inv(V) on the last axis"""
    x = np.asarray(x, dtype=float)
    return np.linalg.solve(Vw.T, (x - ow).reshape(-1, 3).T).T.reshape(x.shape)


def dt_labels(dt, labels, prefix=''):
    labels.update((prefix + 'dt', prefix + 'dt_' + dt.lstrip('<>')))
    if dt[0] == '>':
        labels.add('dt_bigendian')


def build_props(case, Vw=None, ow=None, labels=None):
    """per-atom arrays in the *writing* working units and what must come back.
    returns list of dicts: name, shape, kind, unit, arr (to give to atomman), xu (numbers in unit u) or None, rel (tolerance)"""
    out = []
    labels = set() if labels is None else labels
    for p in case['props']:
        kind, u, shape, dt = p['kind'], p['unit'], tuple(p['shape']), p.get('dtype')
        d = {'name': p['name'], 'shape': shape, 'kind': kind, 'unit': u, 'layout': p.get('layout', 'C'), 'rel': REL, 'back': kind,
             'ro': bool(p.get('ro'))}
        if kind == 's':
            d['arr'] = np.array(p['values'], dtype=str)
            d['raw'] = p['values']
        elif kind == 'i':
            a = np.array(p['values'], dtype=np.int64)
            if dt:
                lo, hi = g.INT_RANGE[dt]
                if dt != 'bool' and bool(np.any((a == lo) | (a == hi))):
                    labels.add('dt_limit')
                a = (a != 0) if dt == 'bool' else a.astype(dt)
                dt_labels(dt, labels, 'prop_')
                labels.add('prop_dt_int')
                if dt == 'bool':
                    d['back'] = 'b'
            d['arr'] = a
            d['raw'] = a
            if u is not None:
                d['xu'] = a / factor(u)                 # an integer array that is a quantity in working units
        else:
            if u == 'scaled':
                s = np.array(p['values'], dtype=float)
                arr = s @ Vw + ow
                f = None
            else:
                x = np.array(p['values'], dtype=float)
                f = factor(u) if u else None
                arr = x * f if u else x
            if dt:
                st_ = to_storage(arr, dt, f)
                if st_ is None:
                    labels.add('dt_fallback')
                else:
                    # what the stored array stands for: its own numbers, exactly, as float64
                    arr = st_
                    a64 = st_.astype(float)
                    d['arr64'] = a64
                    if u == 'scaled':
                        s = own_rel(a64, Vw, ow)
                    elif u:
                        x = a64 / f
                        d['rel'] = narrow_rel(dt)
                    else:
                        x = a64
                    dt_labels(dt, labels, 'prop_')
                    labels.add('prop_dt_float')
                    if u == 'scaled':
                        labels.add('prop_dt_scaled')
            d['arr'] = arr
            if u == 'scaled':
                d['s'] = s
            else:
                d['raw'] = x
                d['xu'] = x
                if u and decades_label(x, labels, 'prop_decades'):
                    pass
        out.append(d)
    return out


def atoms_kwargs(case, props, atype, pos):
    """keyword arguments for am.Atoms: every array in its drawn memory layout (same shape and elements), read-only when drawn"""
    ro = bool(case.get('ro'))
    kw = {'atype': freeze(lay(atype, case.get('atype_layout', 'C')), ro), 'pos': freeze(lay(pos, case.get('pos_layout', 'C')), ro)}
    for d in props:
        kw[d['name']] = freeze(lay(d['arr'], d['layout']), d.get('ro'))
    return kw


def narrow_inputs(case, atype, posw, f, labels, Vw=None, ow=None):
    """atype and pos in the storage dtypes drawn: (atype array, pos array, pos as float64 exactly, relative tolerance of pos with a unit)"""
    adt, pdt = case.get('atype_dtype'), case.get('pos_dtype')
    if adt:
        atype = atype.astype(adt)
        dt_labels(adt, labels, 'atype_')
    pos, rel = posw, REL
    if pdt:
        st_ = to_storage(posw, pdt, f)
        if st_ is None:
            labels.add('dt_fallback')
        else:
            pos, posw, rel = st_, st_.astype(float), narrow_rel(pdt)
            dt_labels(pdt, labels, 'pos_')
    return atype, pos, posw, rel


def caller_overwrites(akw, labels):
    """after the model was written the caller re-uses every array it handed in"""
    done = False
    for a in akw.values():
        done = overwrite(a) or done
    if done:
        labels.add('caller_in')


def layout_labels(case, kw, props, sel, labels):
    """layouts of the arrays that are written (selected properties only)"""
    if 'pos' in sel and lay_labels(kw['pos'], case.get('pos_layout', 'C'), labels):
        labels.add('pos_nonC')
    if 'atype' in sel:
        lay_labels(kw['atype'], 'C', labels)
    for d in props:
        if d['name'] in sel and lay_labels(kw[d['name']], d['layout'], labels):
            labels.add('prop_nonC')
            if d['unit'] is None:
                labels.add('prop_nonC_nounit')


def selection(case, names, units):
    """keyword arguments for .model()/dump selecting properties and units; returns (kwargs, included names, unit map)"""
    sel = names if case['select'] == 'all' else [n for n in case['select'] if n in names]
    umap = {n: units[n] for n in sel}
    if case['select'] == 'all' and case['how'] == 'prop_name' and all(v is None for v in umap.values()):
        return {}, sel, umap                                  # documented default: everything, pos in angstrom
    if case['how'] == 'prop_unit':
        return {'prop_unit': dict(umap)}, sel, umap
    return {'prop_name': list(sel), 'unit': [umap[n] for n in sel]}, sel, umap


def check_props(what, atoms, props, sel, fratio, scaled_tol=None, xml=False):
    """props read back (reading configuration active)"""
    for d in props:
        if d['name'] not in sel:
            continue
        w = '%s property %r %s%r unit %r' % (what, d['name'], d['kind'], d['shape'], d['unit'])
        require(d['name'] in atoms.prop(), lambda: '%s: missing after reading (has %r)' % (w, atoms.prop()))
        got = atoms.view[d['name']]
        u = d['unit']
        if d['kind'] == 's':
            check_array(w, got, d['shape'], 's', d['raw'], exact=True)
        elif u is None:
            check_array(w, got, d['shape'], d['back'], d['raw'], exact=True)
        elif u == 'scaled':
            check_array(w, got, d['shape'], 'f', d.get('arr64', d['arr']) * fratio, exact=False, tol=scaled_tol * fratio)
        else:
            check_array(w, got, d['shape'], 'f', d['xu'] * factor(u), exact=False, rel=d['rel'])


def prop_labels(props, sel, labels):
    hi = sc = False
    for d in props:
        if d['name'] in sel:
            labels.add('prop_' + d['kind'])
            labels.add('proprank%d' % len(d['shape']))
            hi = hi or len(d['shape']) >= 2
            if d['unit'] == 'scaled':
                sc = True
                labels.add('scaled_prop')
            elif d['unit'] is not None:
                labels.add('unit_prop')
                if d['kind'] == 'i':
                    labels.add('int_with_unit')
    return hi, sc


# ----------------------------------------------------------------------------- atoms

def oracle_atoms(case):
    import atomman as am
    n = case['natoms']
    labels = {'natoms1' if n == 1 else 'natoms>1'}
    differ = cfg_labels(case, labels)
    what = 'Atoms.model (%s, %s) via %s' % (case['how'], 'all' if case['select'] == 'all' else 'selected', case['enc'])
    try:
        apply_cfg(case['cfgW'])
        fa = factor('angstrom')
        pos_ang = np.array(case['pos'], dtype=float)
        atype = np.array(case['atype'], dtype=np.int64)
        props = build_props(case, labels=labels)
        atype_a, pos_a, posw, pos_rel = narrow_inputs(case, atype, pos_ang * fa, factor(case['pos_unit'] or 'angstrom'), labels)
        if pos_a.dtype != np.dtype(float):
            pos_ang = posw / fa                                 # what the stored array stands for
        akw = atoms_kwargs(case, props, atype_a, pos_a)
        if case.get('ro') or any(d.get('ro') for d in props):
            labels.add('readonly')
        a = am.Atoms(**akw)
        names = ['atype', 'pos'] + [d['name'] for d in props]
        units = {'atype': None, 'pos': case['pos_unit']}
        units.update({d['name']: d['unit'] for d in props})
        kw, sel, umap = selection(case, names, units)
        labels.add('defaults' if not kw else 'kw_' + case['how'])
        if len(sel) < len(names):
            labels.add('subset')
        layout_labels(case, akw, props, sel, labels)
        kw0 = copy.deepcopy(kw)
        b0 = {k: bits(v) for k, v in akw.items()}
        m = a.model(**kw)
        require({k: bits(v) for k, v in akw.items()} == b0, lambda: '%s: an array held by the Atoms was modified by writing the model' % what)
        listed = [pm['name'] for pm in m['atoms'].aslist('property')]
        require(listed == list(sel), lambda: '%s: model lists properties %r, requested %r' % (what, listed, list(sel)))
        require(m['atoms']['natoms'] == n, lambda: '%s: natoms %r' % (what, m['atoms']['natoms']))
        for pm in m['atoms'].aslist('property'):
            wantu = umap[pm['name']]
            if pm['name'] == 'pos' and wantu is None:
                wantu = 'angstrom'
            require(pm['data'].get('unit') == wantu, lambda: '%s: property %r stored with unit %r, requested %r'
                    % (what, pm['name'], pm['data'].get('unit'), wantu))
        payload = encode(m, case['enc'], what)
        cm = bool(case.get('cm'))
        if cm:
            caller_overwrites(akw, labels)
        apply_cfg(case['cfgR'])
        fr = factor('angstrom')
        text0 = jdump(payload)
        a2 = am.Atoms(model=payload)
        require(jdump(payload) == text0, lambda: '%s: the model handed in was modified by reading it' % what)
        if cm and case['enc'] == 'dict' and scramble_model(payload):
            labels.add('caller_out')
        require(a2.natoms == n, lambda: '%s: natoms %d read back as %r' % (what, n, a2.natoms))
        require(set(a2.prop()) == set(sel) | {'atype', 'pos'}, lambda: '%s: properties read back %r, written %r' % (what, a2.prop(), sel))
        if 'atype' in sel:
            check_array(what + ' atype', a2.view['atype'], (n,), 'i', atype, exact=True)
        if 'pos' in sel:
            check_array(what + ' pos (unit %r)' % umap['pos'], a2.view['pos'], (n, 3), 'f', pos_ang * fr, exact=False, rel=pos_rel)
        check_props(what, a2, props, sel, fr / fa)
        hi, _ = prop_labels(props, sel, labels)
        if case.get('keep_kw') and kw:
            labels.add('keep_kw')
            require(kw == kw0, lambda: '%s: the caller\'s keyword arguments were modified by the call: handed in %r, afterwards %r'
                    % (what, kw0, kw), key=K('model:prop_unit-argument-modified'))
    finally:
        restore_units()
    if case['enc'] != 'dict' and (hi or differ):
        labels.add('nt')
    return labels


# ----------------------------------------------------------------------------- system

def pad(values, n, conv=lambda v: v):
    out = [None] * max(n, len(values or ()))
    for i, v in enumerate(values or ()):
        out[i] = None if v is None else conv(v)
    return tuple(out)


def oracle_system(case):
    import atomman as am
    n = case['natoms']
    c = case['cell']
    route, enc = case['route'], case['enc']
    labels = g.cell_labels10(c) | {'natoms1' if n == 1 else 'natoms>1', 'route_' + route}
    differ = cfg_labels(case, labels)
    what = 'System %s (%s, box_unit %r, pos %r) via %s' % (route, case['how'], case['box_unit'], case['pos_unit'], enc)
    tmpdir = None
    try:
        apply_cfg(case['cfgW'])
        fa = factor('angstrom')
        V, o = g.cell_vects10(c), gens.cell_origin(c)
        box = am.Box(vects=V * fa, origin=o * fa)
        Vw, ow = np.array(box.vects, dtype=float), np.array(box.origin, dtype=float)   # the cell atomman keeps (floor applied)
        s = np.array(case['rel'], dtype=float)
        rel_labels(s, labels)
        posw = s @ Vw + ow
        atype = np.array(case['atype'], dtype=np.int64)
        props = build_props(case, Vw, ow, labels)
        pu0 = case['pos_unit']
        atype_a, pos_a, posw2, pos_rel = narrow_inputs(case, atype, posw, None if pu0 == 'scaled' else factor(pu0 or 'angstrom'), labels)
        if posw2 is not posw:
            posw = posw2                                        # what the stored array stands for
            s = own_rel(posw, Vw, ow)
        akw = atoms_kwargs(case, props, atype_a, pos_a)
        if case.get('ro') or any(d.get('ro') for d in props):
            labels.add('readonly')
        atoms = am.Atoms(**akw)
        amax = int(atype.max())
        system = am.System(atoms=atoms, box=box, pbc=list(case['pbc']),
                           symbols=None if case['symbols'] is None else list(case['symbols']),
                           masses=None if case['masses'] is None else list(case['masses']))
        ntot = max(amax, len(case['symbols'] or ()))
        sym_exp = pad(case['symbols'], ntot)
        mass_exp = pad(case['masses'], ntot, float)
        labels.add('symbols_' + ('none' if case['symbols'] is None else 'holes' if None in sym_exp else 'full'))
        labels.add('masses_' + ('none' if case['masses'] is None else 'holes' if None in mass_exp else 'full'))
        if case['masses'] is not None and mass_exp[0] is None and any(mv is not None for mv in mass_exp):
            labels.add('mass_first_none')
        names = ['atype', 'pos'] + [d['name'] for d in props]
        units = {'atype': None, 'pos': case['pos_unit']}
        units.update({d['name']: d['unit'] for d in props})
        kw, sel, umap = selection(case, names, units)
        if case['box_unit'] is not None:
            kw['box_unit'] = case['box_unit']
        labels.add('box_unit_default' if case['box_unit'] is None else 'box_unit_given')
        layout_labels(case, akw, props, sel, labels)

        # conditioning of the scaled storage (own solve)
        vmax, smax = np.abs(Vw).max(), 1.0
        for d in props:
            if d['unit'] == 'scaled':
                smax = max(smax, float(np.abs(d['s']).max()))
        smax = max(smax, float(np.abs(s).max()))
        tol_s, tol_x = scaled_tols(Vw, ow, smax)

        # ---- write
        m = None
        kw0 = copy.deepcopy(kw)
        b0 = ({k: bits(v) for k, v in akw.items()}, bits(box.vects), bits(box.origin), bits(system.pbc))
        if route == 'model':
            m = system.model(**kw)
            payload = encode(m, enc, what, indent=case['indent'])
        elif route == 'dump':
            payload = system.dump('system_model', format=None if enc == 'dict' else enc, indent=case['indent'], **kw)
            if enc == 'dict':
                m = payload
            require(payload is not None and (enc == 'dict' or isinstance(payload, str)),
                    lambda: '%s: dump returned %r' % (what, type(payload)))
        elif route == 'dump_f':
            buf = io.StringIO()
            ret = system.dump('system_model', f=buf, format=enc, indent=case['indent'], **kw)
            payload = buf.getvalue()
            require(ret is None, lambda: '%s: dump(f=stream) returned %r' % (what, type(ret)))
        else:
            tmpdir = tempfile.mkdtemp(prefix='c10-')
            path = os.path.join(tmpdir, 'system' + case['ext'])
            given = enc if case['give_format'] else None
            system.dump('system_model', f=path, format=given, indent=case['indent'], **kw)
            inferred = {'.json': 'json', '.xml': 'xml'}.get(case['ext'], 'json')     # docstring: not inferable -> json
            enc = given or inferred
            labels.add('path_ext_' + (case['ext'][1:] or 'none'))
            with open(path, encoding='UTF-8') as fh:
                payload = fh.read()
            if payload == '' and given is None and case['ext'] not in ('.json', '.xml'):
                raise Violation("%s: dump(f='system%s') without format wrote an empty file (documented: set to 'json')" % (what, case['ext']),
                                key=K('dump:system_model:format-not-inferable-writes-nothing'))
        require(({k: bits(v) for k, v in akw.items()}, bits(box.vects), bits(box.origin), bits(system.pbc)) == b0,
                lambda: '%s: the System (an array of its Atoms, its Box or pbc) was modified by writing the model' % what)
        if isinstance(payload, str):
            first = payload.lstrip()[:1]
            require(first == ('{' if enc == 'json' else '<'), lambda: '%s: text is not %s: %r' % (what, enc, payload[:80]))
            if case['indent'] is not None:
                require('\n' in payload, lambda: '%s: indent=%r ignored' % (what, case['indent']))
        # ---- stored form (when the DataModelDict is in hand)
        if m is not None:
            bm = m['atomic-system']['box']
            if case['box_unit'] is not None:
                require(bm['avect'].get('unit') == case['box_unit'], lambda: '%s: box stored with unit %r' % (what, bm['avect'].get('unit')))
            for pm in m['atomic-system']['atoms'].aslist('property'):
                wantu = umap[pm['name']]
                if pm['name'] == 'pos' and wantu is None:
                    wantu = 'angstrom'
                require(pm['data'].get('unit') == wantu, lambda: '%s: property %r stored with unit %r, requested %r'
                        % (what, pm['name'], pm['data'].get('unit'), wantu))
                if wantu == 'scaled':
                    sv = s if pm['name'] == 'pos' else [d['s'] for d in props if d['name'] == pm['name']][0]
                    st_ = np.asarray(pm['data']['value'], dtype=float)
                    require(st_.size == sv.size and float(np.abs(st_.reshape(sv.shape) - sv).max()) <= tol_s,
                            lambda: '%s: property %r stored as %r, box-relative coordinates are %r (tol %.3g)'
                            % (what, pm['name'], st_.tolist(), sv.tolist(), tol_s))
        # ---- the caller goes on with what it handed in: the model it holds must not move
        cm = bool(case.get('cm'))
        if cm:
            caller_overwrites(akw, labels)
            system.box.vects = _PRIOR_V * (3.0 * fa)
            system.box.origin = _PRIOR_O * (-2.0 * fa)
            system.pbc = [not bool(q) for q in case['pbc']]
        # ---- read
        apply_cfg(case['cfgR'])
        fr = factor('angstrom')
        text0 = jdump(payload) if route in ('model', 'dump') else None
        if route == 'model':
            s2 = am.System(model=payload)
        elif route == 'dump':
            s2 = am.load('system_model', payload)
        elif route == 'dump_f':
            s2 = am.load('system_model', payload if case['indent'] is None else io.BytesIO(payload.encode('UTF-8')))
        else:
            s2 = am.load('system_model', path)
        if text0 is not None:
            require(jdump(payload) == text0, lambda: '%s: the model handed in was modified by reading it' % what)
            if cm and enc == 'dict' and scramble_model(payload):
                labels.add('caller_out')
        # ---- compare
        Vexp, oexp = Vw * (fr / fa), ow * (fr / fa)
        if case['box_unit'] is None and abs(fr / fa - 1.0) > 1e-9:
            # documented default 'angstrom'; a box stored without unit is re-read in the reading working units
            Bv = np.asarray(s2.box.vects, dtype=float)
            if np.allclose(Bv, Vw, rtol=1e-12, atol=1e-12 * vmax) and not np.allclose(Bv, Vexp, rtol=1e-12, atol=1e-12 * vmax * fr / fa):
                raise Violation('%s: box_unit left at its default ("angstrom" per docstring) stores the box without a unit: cell written '
                                'under length factor %.6g re-read under %.6g keeps its numbers, the positions (stored in angstrom) do not'
                                % (what, fa, fr), key=K('System.model:box_unit-default-stores-no-unit'))
        check_box(what, s2.box, Vexp, oexp)
        pbc = np.asarray(s2.pbc)
        require(pbc.dtype == bool and pbc.tolist() == list(case['pbc']), lambda: '%s: pbc %r read back as %r' % (what, case['pbc'], s2.pbc))
        require(tuple(s2.symbols) == sym_exp, lambda: '%s: symbols %r read back as %r' % (what, sym_exp, s2.symbols))
        require(tuple(s2.masses) == mass_exp, lambda: '%s: masses %r read back as %r' % (what, mass_exp, s2.masses))
        require(s2.natoms == n, lambda: '%s: natoms %d read back as %r' % (what, n, s2.natoms))
        require(s2.natypes == ntot, lambda: '%s: natypes %d read back as %r' % (what, ntot, s2.natypes))
        require(set(s2.atoms.prop()) == set(sel) | {'atype', 'pos'},
                lambda: '%s: properties read back %r, written %r' % (what, s2.atoms.prop(), sel))
        if 'atype' in sel:
            check_array(what + ' atype', s2.atoms.view['atype'], (n,), 'i', atype, exact=True)
        if 'pos' in sel:
            pu = umap['pos']
            labels.add('pos_' + str(pu))
            if pu == 'scaled':
                check_array(what + ' pos (scaled)', s2.atoms.view['pos'], (n, 3), 'f', posw * (fr / fa), exact=False, tol=tol_x * fr / fa)
            else:
                check_array(what + ' pos (unit %r)' % pu, s2.atoms.view['pos'], (n, 3), 'f', posw * (fr / fa), exact=False, rel=pos_rel)
        check_props(what, s2.atoms, props, sel, fr / fa, scaled_tol=tol_x)
        hi, sc = prop_labels(props, sel, labels)
        sc = sc or ('pos' in sel and umap['pos'] == 'scaled')
        if case.get('keep_kw') and kw0:
            labels.add('keep_kw')
            require(kw == kw0, lambda: '%s: the caller\'s keyword arguments were modified by the call: handed in %r, afterwards %r'
                    % (what, kw0, kw), key=K('model:prop_unit-argument-modified'))
    finally:
        restore_units()
        if tmpdir is not None:
            shutil.rmtree(tmpdir, ignore_errors=True)
    if enc != 'dict' and (hi or sc or differ):
        labels.add('nt')
    return labels


# ----------------------------------------------------------------------------- elastic constants

_VOIGT_PAIR = {3: (1, 2), 4: (0, 2), 5: (0, 1)}


def relabelled(C, k):
    """the 6x6 Voigt matrix with the Cartesian axes renamed by the k-th permutation (entries moved, no arithmetic)"""
    p = g.PERMS6[k % 6]
    idx = [p[0], p[1], p[2]] + [6 - p[_VOIGT_PAIR[v][0]] - p[_VOIGT_PAIR[v][1]] for v in (3, 4, 5)]
    out = np.empty_like(C)
    for a in range(6):
        for b in range(6):
            out[idx[a], idx[b]] = C[a, b]
    return out


def oracle_elastic(case):
    import atomman as am
    fam, u, enc = case['family'], case['unit'], case['enc']
    labels = {'fam_' + fam, 'unit' if u else 'nounit', 'norm_' + case['normalize']}
    differ = cfg_labels(case, labels)
    C = np.array(case['Cij'], dtype=float)
    C0 = C
    cs = fam if case['normalize'] == 'family' else 'triclinic'
    delta = 0.0
    pt = case.get('perturb')
    if pt:
        # almost the symmetry of the family: a symmetric perturbation of 10**-e of the largest entry
        P = np.zeros((6, 6))
        P[np.triu_indices(6)] = pt['P']
        P = P + np.triu(P, 1).T
        delta = 10.0 ** -int(pt['e']) * float(np.abs(C).max())
        C = C + delta * P
        labels.add('near_sym')
        labels.add('near_sym_fine' if pt['e'] >= 8 else 'near_sym_coarse')
    if cs == 'triclinic' and case.get('relabel'):
        Cn = relabelled(C, int(case['relabel']))
        if not np.array_equal(Cn, C):
            labels.add('relabelled')
        C = Cn
    what = 'ElasticConstants(%s%s).model(unit=%r, crystal_system=%s) via %s' % (
        fam, ' + %.0e perturbation' % delta if pt else '', u, cs if case['normalize'] != 'default' else '<default>', enc)
    cm = bool(case.get('cm'))
    try:
        apply_cfg(case['cfgW'])
        fW = factor(u) if u else 1.0
        Cw = C * fW if u else C.copy()
        ec = am.ElasticConstants(Cij=Cw)
        if cm:
            Cw[...] = -1.0                                    # the caller re-uses the array it built the object from
        kw = {}
        if u is not None:
            kw['unit'] = u
        if case['normalize'] != 'default':
            kw['crystal_system'] = cs
        b0 = bits(ec.Cij)
        m = ec.model(**kw)
        require(bits(ec.Cij) == b0, lambda: '%s: the ElasticConstants object was modified by writing its model' % what)
        cm_ = m['elastic-constants']['Cij']
        require(cm_.get('unit') == u, lambda: '%s: stored with unit %r' % (what, cm_.get('unit')))
        payload = encode(m, enc, what)
        if cm:
            ec.Cij = np.identity(6) * (7.0 * fW)              # ... and the object: the model it holds must not move
            labels.add('caller_in')
        apply_cfg(case['cfgR'])
        fR = factor(u) if u else 1.0
        text0 = jdump(payload)
        if case['ctor']:
            ec2 = am.ElasticConstants(model=payload)
        else:
            ec2 = am.ElasticConstants(C11=1.0, C12=0.5, C44=0.3)
            ret = ec2.model(model=payload)
            require(ret is None, lambda: '%s: model(model=...) returned %r' % (what, ret))
        require(jdump(payload) == text0, lambda: '%s: the model handed in was modified by reading it' % what)
        if cm and enc == 'dict' and scramble_model(payload):
            labels.add('caller_out')
        got = np.asarray(ec2.Cij, dtype=float)
        exp = C * fR if u else C
        require(got.shape == (6, 6), lambda: '%s: Cij shape %r' % (what, got.shape))
        if cs == 'triclinic':
            # no arithmetic besides the unit conversion; the Cij setter zeroes terms up to 1e-9 of the largest one (its clean-up,
            # like Box's): a perturbation that small may come back as 0 (band of 10 % around the rung: either)
            cleaned = (got == 0.0) & (np.abs(exp) <= 1.1e-9 * np.abs(exp).max())
            if pt and bool((cleaned & (exp != 0.0)).any()):
                labels.add('near_sym_cleaned')
            if u is None:
                require(bool(((got == exp) | cleaned).all()), lambda: '%s: numbers differ, %s' % (what, worst(got, exp)))
            else:
                require(bool(((np.abs(got - exp) <= REL * np.abs(exp)) | cleaned).all()),
                        lambda: '%s: physical value differs, %s' % (what, worst(got, exp)))
        else:
            # normalisation of a tensor that already has the symmetry: averages of equal entries, Hill averages through
            # one 6x6 inverse (isotropic): <= ~50 cond eps relative to the largest entry, cond <= ~20.
            # Off the symmetry by delta: every normalised entry is an average of entries (sum of the weights' magnitudes <= 3:
            # C12 = (c12 + c11 - 2 c66) / 2 of the hexagonal and rhombohedral settings, C66 = (C11 - C12) / 2), so the result is
            # within 3 delta of the symmetric tensor; the Hill average of the isotropic setting goes through the inverse
            # (observed: <= 1.5 delta for the averaging settings, <= 0.6 delta isotropic, 4 000 tensors): 8 delta
            exp0 = C0 * fR if u else C0
            tol = 1e-12 * np.abs(exp0).max() + (8.0 if cs == 'isotropic' else 3.0) * delta * (fR if u else 1.0)
            err = np.abs(got - exp0).max()
            require(err <= tol, lambda: '%s: differs from the symmetric tensor by %.3g (tol %.3g), %s' % (what, err, tol, worst(got, exp0)))
    finally:
        restore_units()
    if enc != 'dict':
        labels.add('nt')
    return labels


# ----------------------------------------------------------------------------- options (enumerated)

def oracle_options(case):
    labels = set(oracle_system(case))
    sel = case['select']
    units = {'pos': case['pos_unit']}
    units.update({p['name']: p['unit'] for p in case['props']})
    nsc = sum(1 for nme in sel if units.get(nme) == 'scaled')
    labels.add('scaled_%d' % nsc)
    labels.add('pos_selected' if 'pos' in sel else 'pos_absent')
    if 'pos' not in sel and nsc:
        labels.add('scaled_without_pos')
    if nsc and 'pos' in sel and units['pos'] != 'scaled':
        labels.add('scaled_prop_pos_with_unit')
    if nsc >= 2:
        first = [nme for nme in sel if units.get(nme) == 'scaled'][0]
        labels.add('scaled_first_' + first)
    labels.add('atype_first' if sel[0] == 'atype' else 'atype_last')
    return labels


# ----------------------------------------------------------------------------- history: ledger, caller-side mutation, unit plans

def obj_bits(kind, obj):
    if kind == 'value':
        return tuple(bits(a) for a in obj if a is not None)
    if kind == 'box':
        return (bits(obj.vects), bits(obj.origin))
    if kind == 'elastic':
        return bits(obj.Cij)
    return (bits(obj.box.vects), bits(obj.box.origin), bits(obj.pbc), tuple(obj.symbols), tuple(obj.masses),
            tuple((k, bits(obj.atoms.view[k])) for k in obj.atoms.prop()))


class Ledger:
    """everything the caller was handed out - models and objects read back - with what it held when it was returned; judged
    again, bit for bit, after every later call and every later change of anything else"""

    def __init__(self):
        self.dms, self.objs = [], []

    def add_dm(self, m, expect, where):
        self.dms.append({'m': m, 'text': jdump(m), 'expect': expect, 'where': where, 'tampered': False, 'stale': False})

    def add_obj(self, kind, obj, where):
        for e in self.objs:
            if e['obj'] is obj:                     # an existing object that received another model: its new content counts
                e.update(snap=obj_bits(kind, obj), where=where)
                return
        self.objs.append({'kind': kind, 'obj': obj, 'snap': obj_bits(kind, obj), 'where': where})

    def refresh(self, e):
        if 'm' in e:
            e['text'] = jdump(e['m'])
        else:
            e['snap'] = obj_bits(e['kind'], e['obj'])

    def verify(self, after, labels):
        for e in self.dms:
            require(jdump(e['m']) == e['text'], lambda: 'the model returned by %s changed after %s:\nwas  %s\nis   %s'
                    % (e['where'], after, e['text'][:400], jdump(e['m'])[:400]))
        for e in self.objs:
            require(obj_bits(e['kind'], e['obj']) == e['snap'], lambda: 'the %s returned by %s changed after %s' % (e['kind'], e['where'], after))
        if len(self.dms) + len(self.objs) >= 2:
            labels.add('ledger')
        if len(self.objs) >= 1 and len(self.dms) >= 1:
            labels.add('ledger_mixed')


_HIST_PTS = np.array([[0.25, 0.5, 0.75], [1.0, 0.0, -0.5]])


class World:
    """the caller's side of a history: arrays and atomman objects holding one of two sets of content each"""

    def __init__(self, case, labels):
        import atomman as am
        self.am, self.case, self.labels = am, case, labels
        self.j = {t: 0 for t in g.HIST_TYPES}
        self.n = case['natoms']
        self.truth = {}
        for t in g.HIST_TYPES:
            self.build(t)
        fa = factor('angstrom')
        self.recv_box = am.Box(vects=_PRIOR_V * fa, origin=_PRIOR_O * fa)
        self.recv_box.reciprocal_vects
        self.recv_ec = am.ElasticConstants(C11=1.0, C12=0.5, C44=0.3)

    # content of dataset j of target t as working-unit numbers under the configuration active now
    def content(self, t, j):
        case, d = self.case, self.case['data'][j]
        if t == 'value':
            f = factor(case['vu']) if case['vu'] else 1.0
            return {'val': np.array(d['val'], dtype=float) * f, 'err': np.array(d['err'], dtype=float) * f}
        if t == 'elastic':
            f = factor(case['eu']) if case['eu'] else 1.0
            return {'C': np.array(d['Cij'], dtype=float) * f}
        fa = factor('angstrom')
        c = {'V': g.cell_vects10(d['cell']) * fa, 'o': gens.cell_origin(d['cell']) * fa}
        if t == 'system':
            c.update(rel=np.array(d['rel'], dtype=float), disp=np.array(d['disp'], dtype=float) * factor(case['du']),
                     flag=np.array(d['flag'], dtype=np.int64))
        return c

    def build(self, t):
        """new caller arrays and a new atomman object for target t from its current dataset"""
        am, case, c = self.am, self.case, self.content(t, self.j[t])
        if t == 'value':
            self.val, self.err = c['val'].copy(), c['err'].copy()
            self.truth[t] = {'val': self.val.copy(), 'err': self.err.copy()}
        elif t == 'elastic':
            self.C = c['C'].copy()
            self.ec = am.ElasticConstants(Cij=self.C)
            self.truth[t] = {'C': np.array(self.ec.Cij)}
        elif t == 'box':
            self.box = am.Box(vects=c['V'], origin=c['o'])
            self.truth[t] = {'V': np.array(self.box.vects), 'o': np.array(self.box.origin)}
        else:
            box = am.Box(vects=c['V'], origin=c['o'])
            Vw, ow = np.array(box.vects), np.array(box.origin)
            self.pos, self.disp, self.flag = c['rel'] @ Vw + ow, c['disp'].copy(), c['flag'].copy()
            self.atype = np.array(case['atype'], dtype=np.int64)
            atoms = am.Atoms(atype=self.atype, pos=self.pos, disp=self.disp, flag=self.flag)
            self.system = am.System(atoms=atoms, box=box, pbc=list(case['pbc']), symbols=list(case['symbols']), masses=list(case['masses']))
            self.truth[t] = {'V': Vw, 'o': ow, 'pos': self.pos.copy(), 'disp': self.disp.copy(), 'flag': self.flag.copy(),
                             'atype': self.atype.copy(), 'pbc': list(case['pbc'])}

    def overwrite(self, t, v):
        """the caller puts the other dataset into what it handed in: in place, through the setters"""
        self.j[t] = 1 - self.j[t]
        c, tr = self.content(t, self.j[t]), self.truth[t]
        if t == 'value':
            self.val[...] = c['val']
            self.err[...] = c['err']
            tr.update(val=self.val.copy(), err=self.err.copy())
        elif t == 'elastic':
            self.C[...] = c['C']
            self.ec.Cij = self.C
            tr.update(C=np.array(self.ec.Cij))
        else:
            box = self.box if t == 'box' else self.system.box
            if v % 2:
                box.set(vects=c['V'], origin=c['o'])
            else:
                box.vects = c['V']
                box.origin = c['o']
            tr.update(V=np.array(box.vects), o=np.array(box.origin))
            if t == 'system':
                view = self.system.atoms.view
                newpos = c['rel'] @ tr['V'] + tr['o']
                for key, arr, new in (('pos', self.pos, newpos), ('disp', self.disp, c['disp']), ('flag', self.flag, c['flag'])):
                    arr[...] = new                  # the array handed in (Atoms may hold it itself: documented) ...
                    view[key][...] = new            # ... and the object's own, so that the System holds the new content either way
                newpbc = [not bool(q) for q in tr['pbc']] if v % 3 == 0 else tr['pbc']
                self.system.pbc = newpbc
                tr.update(pos=newpos.copy(), disp=c['disp'].copy(), flag=c['flag'].copy(), pbc=list(newpbc))

    def check_inputs(self, after):
        """what the caller handed in is bit for bit what it put there"""
        tr = self.truth
        ok = (bits(self.val) == bits(tr['value']['val']) and bits(self.err) == bits(tr['value']['err'])
              and bits(self.ec.Cij) == bits(tr['elastic']['C'])
              and bits(self.box.vects) == bits(tr['box']['V']) and bits(self.box.origin) == bits(tr['box']['o']))
        require(ok, lambda: 'a value / error array, the Box or the ElasticConstants the caller holds changed after %s' % after)
        ts, sy = tr['system'], self.system
        ok = (bits(sy.box.vects) == bits(ts['V']) and bits(sy.box.origin) == bits(ts['o']) and np.asarray(sy.pbc).tolist() == ts['pbc']
              and all(bits(sy.atoms.view[k]) == bits(ts[k]) for k in ('atype', 'pos', 'disp', 'flag'))
              and all(bits(a) == bits(ts[k]) for k, a in (('pos', self.pos), ('disp', self.disp), ('flag', self.flag), ('atype', self.atype)))
              and tuple(sy.symbols) == tuple(self.case['symbols']) and tuple(sy.masses) == tuple(float(x) for x in self.case['masses']))
        require(ok, lambda: 'the System the caller holds (box, pbc, symbols, masses or a per-atom array) changed after %s' % after)

    # ------------------------------------------------------------------ writing
    def write(self, t, v):
        """(model, expectation, description); the expectation holds numbers in the storage units, from own factors"""
        import atomman.unitconvert as uc
        case, tr = self.case, self.truth[t]
        if t == 'value':
            u, with_err = case['vu'], bool(v % 2)
            m = uc.model(self.val, u, self.err) if with_err else uc.model(self.val, u)
            f = factor(u) if u else 1.0
            return m, {'t': t, 'u': u, 'x': tr['val'] / f if u else tr['val'].copy(), 'e': (tr['err'] / f if u else tr['err'].copy()) if with_err else None}, \
                'uc.model(value%s, %r)' % (', error' if with_err else '', u)
        if t == 'elastic':
            u = case['eu']
            m = self.ec.model(unit=u) if (u or v % 2) else self.ec.model()
            return m, {'t': t, 'u': u, 'C': tr['C'] / factor(u) if u else tr['C'].copy()}, 'ElasticConstants.model(unit=%r)' % u
        fa = factor('angstrom')
        if t == 'box':
            lu = ('angstrom', 'nm', 'm', 'aBohr')[v % 4]
            m = self.box.model(length_unit=lu) if v % 8 else self.box.model()
            lu = lu if v % 8 else 'angstrom'
            return m, {'t': t, 'V': tr['V'] / fa, 'o': tr['o'] / fa}, 'Box.model(length_unit=%r)' % lu
        pu = (None, 'scaled', 'nm', 'scaled', 'angstrom', 'm')[v % 6]
        du = case['du'] if (v // 6) % 2 == 0 else None
        bu = None if (v // 12) % 2 == 0 else 'nm'
        umap = {'atype': None, 'pos': pu, 'disp': du, 'flag': None}
        order = (['atype', 'pos', 'disp', 'flag'], ['disp', 'flag', 'pos', 'atype'])[v % 2]
        if v % 4 < 2:
            kw = {'prop_unit': {k: umap[k] for k in order}}
        else:
            kw = {'prop_name': list(order), 'unit': [umap[k] for k in order]}
        if bu:
            kw['box_unit'] = bu
        m = self.system.dump('system_model', **kw) if v % 3 == 0 else self.system.model(**kw)
        s = own_rel(tr['pos'], tr['V'], tr['o'])
        tol_s, tol_x = scaled_tols(tr['V'], tr['o'], max(1.0, float(np.abs(s).max())))
        if pu == 'scaled':
            pm = [q for q in m['atomic-system']['atoms'].aslist('property') if q['name'] == 'pos'][0]
            st_ = np.asarray(pm['data']['value'], dtype=float)
            require(pm['data'].get('unit') == 'scaled' and st_.size == s.size and float(np.abs(st_.reshape(s.shape) - s).max()) <= tol_s,
                    lambda: 'System.model: pos stored as %r (unit %r), box-relative coordinates are %r (tol %.3g)'
                    % (st_.tolist(), pm['data'].get('unit'), s.tolist(), tol_s))
            self.labels.add('w_scaled')
        exp = {'t': t, 'V': tr['V'] / fa, 'o': tr['o'] / fa, 'pos': tr['pos'] / fa, 'tol_pos': tol_x / fa if pu == 'scaled' else None,
               'du': du, 'disp': tr['disp'] / factor(du) if du else tr['disp'].copy(), 'flag': tr['flag'].copy(), 'atype': tr['atype'].copy(),
               'pbc': list(tr['pbc'])}
        return m, exp, 'System.%s(%s)' % ('dump' if v % 3 == 0 else 'model', ', '.join('%s=%r' % kv for kv in sorted(kw.items())))

    # ------------------------------------------------------------------ reading
    def read(self, e, enc, v, tag):
        """read the model of ledger entry e under the configuration active now, judge it, return (kind, object)"""
        import atomman.unitconvert as uc
        from DataModelDict import DataModelDict as DM
        am, case, x, t = self.am, self.case, e['expect'], e['expect']['t']
        what = '%s read %s via %s' % (e['where'], tag, enc)
        fr = factor('angstrom')
        if t == 'value':
            payload = encode(DM([('quantity', e['m'])]), enc, what)
            term = e['m'] if enc == 'dict' else DM(payload)['quantity']
            f = factor(x['u']) if x['u'] else 1.0
            got = uc.value_unit(term)
            shape = x['x'].shape
            len1 = enc == 'xml' and shape == (1,)
            check_array(what, got, shape, 'f', x['x'] * f, exact=x['u'] is None, xml_len1=len1)
            ge = None
            if x['e'] is not None:
                ge = uc.error_unit(term)
                check_array(what + ' [error]', ge, shape, 'f', x['e'] * f, exact=x['u'] is None, xml_len1=len1)
            return 'value', (got, ge)
        payload = encode(e['m'], enc, what)
        if t == 'elastic':
            if v % 2:
                ec2 = self.recv_ec
                ec2.model(model=payload)
                self.labels.add('recv_existing')
            else:
                ec2 = am.ElasticConstants(model=payload)
            got, exp = np.asarray(ec2.Cij, dtype=float), x['C'] * (factor(x['u']) if x['u'] else 1.0)
            if x['u'] is None:
                require(np.array_equal(got, exp), lambda: '%s: numbers differ, %s' % (what, worst(got, exp)))
            else:
                require(rel_ok(got, exp), lambda: '%s: physical value differs, %s' % (what, worst(got, exp)))
            return 'elastic', ec2
        if t == 'box':
            if v % 2:
                B2 = self.recv_box
                B2.model(model=payload)
                self.labels.add('recv_existing')
            else:
                B2 = am.Box(model=payload)
            check_box(what, B2, x['V'] * fr, x['o'] * fr)
            check_derived(what, B2, _HIST_PTS, ('recip', 'c2r'))
            return 'box', B2
        s2 = am.load('system_model', payload) if v % 3 == 1 else am.System(model=payload)
        n = self.n
        check_box(what, s2.box, x['V'] * fr, x['o'] * fr)
        pbc = np.asarray(s2.pbc)
        require(pbc.dtype == bool and pbc.tolist() == x['pbc'], lambda: '%s: pbc %r read back as %r' % (what, x['pbc'], s2.pbc))
        require(tuple(s2.symbols) == tuple(case['symbols']), lambda: '%s: symbols %r read back as %r' % (what, case['symbols'], s2.symbols))
        require(tuple(s2.masses) == tuple(float(q) for q in case['masses']), lambda: '%s: masses %r read back as %r' % (what, case['masses'], s2.masses))
        require(s2.natoms == n and set(s2.atoms.prop()) == {'atype', 'pos', 'disp', 'flag'},
                lambda: '%s: natoms %r, properties %r' % (what, s2.natoms, s2.atoms.prop()))
        check_array(what + ' atype', s2.atoms.view['atype'], (n,), 'i', x['atype'], exact=True)
        check_array(what + ' flag', s2.atoms.view['flag'], (n,), 'i', x['flag'], exact=True)
        check_array(what + ' pos', s2.atoms.view['pos'], (n, 3), 'f', x['pos'] * fr, exact=False,
                    tol=None if x['tol_pos'] is None else x['tol_pos'] * fr)
        if x['du']:
            check_array(what + ' disp (unit %r)' % x['du'], s2.atoms.view['disp'], (n, 3), 'f', x['disp'] * factor(x['du']), exact=False)
        else:
            check_array(what + ' disp (no unit)', s2.atoms.view['disp'], (n, 3), 'f', x['disp'], exact=True)
        return 'system', s2


def spoil(kind, obj, v):
    """the caller overwrites in place / through the setters an object it was handed out"""
    if kind == 'value':
        return any([overwrite(a) for a in obj if a is not None])
    if kind == 'elastic':
        obj.Cij = np.identity(6) * (3.0 + v)
    elif kind == 'box':
        obj.origin = obj.origin + (1.0 + v)
        obj.vects = _PRIOR_V * (2.0 + v)
    else:
        for k in obj.atoms.prop():
            overwrite(obj.atoms.view[k]) if k != 'atype' else None
        obj.box.origin = obj.box.origin - (1.0 + v)
        obj.pbc = [not bool(q) for q in obj.pbc]
    return True


def oracle_history(case):
    labels = set()
    led = Ledger()
    try:
        apply_cfg(case['cfg0'])
        cfg_now, ncfg = jdump(case['cfg0']), 0
        world = World(case, labels)
        for i, st_ in enumerate(case['steps']):
            op = st_['op']
            tag = 'step %d (%s)' % (i, op)
            if op == 'cfg':
                apply_cfg(st_['cfg'])
                if jdump(st_['cfg']) != cfg_now:
                    cfg_now, ncfg = jdump(st_['cfg']), ncfg + 1
                    labels.add('reset_units')
                if st_['rebuild']:
                    # the caller re-expresses what it holds in the new working units (own factors), in new objects
                    for t in g.HIST_TYPES:
                        world.build(t)
                    labels.add('rebuild')
            elif op == 'w':
                m, exp, where = world.write(st_['t'], st_['v'])
                led.add_dm(m, exp, '%s at step %d' % (where, i))
                led.dms[-1]['cfg'] = cfg_now
                labels.add('w_' + st_['t'])
            elif op == 'r':
                live = [e for e in led.dms if not e['tampered']]
                if not live:
                    labels.add('nothing_to_read')
                    continue
                e = live[st_['k'] % len(live)]
                kind, obj = world.read(e, st_['enc'], st_['v'], 'at step %d' % i)
                led.add_obj(kind, obj, '%s, read at step %d' % (e['where'], i))
                labels.add('r_' + kind)
                if e['cfg'] != cfg_now:
                    labels.add('read_after_reset')
                if e['stale']:
                    labels.add('read_after_caller_in')
            elif op == 'min':
                world.overwrite(st_['t'], st_['v'])
                for e in led.dms:
                    if e['expect']['t'] == st_['t']:
                        e['stale'] = True               # what it was written from no longer exists: the model must still say the same
                labels.add('caller_in')
            else:
                every = led.objs if (led.objs and st_['v'] % 2) else led.dms + led.objs
                if not every:
                    labels.add('nothing_to_spoil')
                    continue
                e = every[st_['k'] % len(every)]
                if 'm' in e:
                    if scramble_model(e['m']):
                        e['tampered'] = True
                        labels.add('caller_out_model')
                else:
                    if spoil(e['kind'], e['obj'], st_['v'] % 3):
                        labels.add('caller_out_object')
                led.refresh(e)
            led.verify(tag, labels)
            world.check_inputs(tag)
        # in the end every model still in the caller's hands is read once more (new objects), under the configuration active now
        for e in led.dms:
            if not e['tampered']:
                world.read(e, 'dict', 0, 'at the end')
                if e['cfg'] != cfg_now:
                    labels.add('read_after_reset')
                if e['stale']:
                    labels.add('read_after_caller_in')
        led.verify('the final readings', labels)
        world.check_inputs('the final readings')
    finally:
        restore_units()
    if 'ledger' in labels and labels & {'caller_in', 'caller_out_model', 'caller_out_object', 'read_after_reset'}:
        labels.add('nt')
    return labels


CLAUSES = [
    Clause('value', oracle_value, g.value_cases, quick=12000, thorough=180000,
           min_share={'nt': 0.3, 'cfg_differ': 0.2, 'enc_xml': 0.15, 'enc_json': 0.15, 'rank3': 0.08, 'rank4': 0.06, 'unit': 0.2,
                      'error': 0.08, 'kind_i': 0.08, 'nonC': 0.14, 'nonC_nonF': 0.04, 'lay_T': 0.051, 'lay_F': 0.059, 'lay_S': 0.02,
                      'lay_SF': 0.02, 'lay_X': 0.015, 'error_nonC': 0.024,
                      # classes carried over from the other properties (half of the smallest share seen at seeds 1, 2)
                      'caller_in': 0.08, 'caller_out': 0.19, 'decades': 0.075, 'decades_unit': 0.036, 'dt': 0.15, 'dt_float': 0.08, 'dt_int': 0.064,
                      'dt_limit': 0.028, 'dt_f4': 0.04, 'dt_f2': 0.012, 'dt_bigendian': 0.035, 'dt_unit': 0.054, 'dt_nounit': 0.085, 'readonly': 0.14,
                      'row_alone': 0.26, 'form_tuple': 0.044},
           desc='uc.model -> (dict | JSON | XML) -> uc.value_unit / error_unit: shape, dtype kind, physical value; write and read '
                'under different working units; value and error arrays in C / transposed / Fortran / axis-swapped / strided layouts'),
    Clause('box', oracle_box, g.box_cases, quick=3500, thorough=50000,
           min_share={'nt': 0.2, 'cfg_differ': 0.3, 'origin': 0.2, 'rotated': 0.16, 'fresh': 0.15, 'prior_used': 0.2,
                      'prior_cell_differs': 0.25, 'prior_recip': 0.1, 'prior_c2r': 0.1, 'prior_scaled': 0.05, 'in_system': 0.1,
                      'prior_unused': 0.04,
                      # classes carried over from the other properties (half of the smallest share seen at seeds 1, 2)
                      'caller_in': 0.17, 'caller_out': 0.028, 'lefthanded': 0.2, 'lowertri_neg': 0.12, 'sym': 0.098, 'sym_diag': 0.062, 'sym_perm': 0.034,
                      'tiny_tilt': 0.068, 'tiny_cleaned': 0.045, 'tiny_1e-9_1e-5': 0.03, 'tiny_1e-5_1e-3': 0.025, 'near_face': 0.31},
           desc='Box.model(length_unit) -> Box(model=) / Box.model(model=) into a Box (alone or held by a System) that had another '
                'cell and whose reciprocal vectors / position maps / box-scaled storage were used: cell and origin as physical '
                'lengths, then reciprocal vectors, both position maps and a box-scaled System.model against own arithmetic'),
    Clause('atoms', oracle_atoms, g.atoms_cases, quick=6500, thorough=100000,
           min_share={'nt': 0.25, 'natoms1': 0.08, 'prop_s': 0.12, 'prop_i': 0.1, 'proprank3': 0.12, 'unit_prop': 0.12, 'subset': 0.05,
                      'nonC': 0.3, 'pos_nonC': 0.2, 'prop_nonC': 0.18, 'prop_nonC_nounit': 0.1, 'nonC_nonF': 0.12, 'lay_T': 0.14,
                      'lay_F': 0.12, 'lay_S': 0.06, 'lay_SF': 0.06, 'lay_X': 0.07,
                      # classes carried over from the other properties (half of the smallest share seen at seeds 1, 2)
                      'atype_dt': 0.23, 'pos_dt_f4': 0.07, 'prop_dt_float': 0.089, 'prop_dt_int': 0.045, 'dt_bigendian': 0.12, 'dt_limit': 0.019,
                      'prop_decades': 0.019, 'readonly': 0.3, 'caller_in': 0.13, 'caller_out': 0.032, 'keep_kw': 0.04},
           desc='Atoms.model(prop_name/unit | prop_unit | defaults) -> Atoms(model=): every listed property, shapes, dtype kinds, units'),
    Clause('system', oracle_system, g.system_cases, quick=12500, thorough=220000,
           min_share={'nt': 0.25, 'pos_scaled': 0.1, 'scaled_prop': 0.06, 'mass_first_none': 0.04, 'symbols_holes': 0.08,
                      'masses_holes': 0.1, 'route_dump': 0.15, 'route_model': 0.15, 'route_dump_f': 0.04, 'route_dump_path': 0.03,
                      'enc_xml': 0.15, 'cfg_differ': 0.15, 'natoms1': 0.07, 'proprank3': 0.12, 'prop_s': 0.1,
                      'nonC': 0.3, 'pos_nonC': 0.25, 'prop_nonC': 0.2, 'prop_nonC_nounit': 0.12, 'nonC_nonF': 0.15, 'lay_T': 0.14,
                      'lay_F': 0.12, 'lay_S': 0.07, 'lay_SF': 0.08, 'lay_X': 0.084,
                      # classes carried over from the other properties (half of the smallest share seen at seeds 1, 2)
                      'atype_dt': 0.24, 'pos_dt_f4': 0.077, 'prop_dt_float': 0.09, 'prop_dt_int': 0.044, 'prop_dt_scaled': 0.018, 'dt_limit': 0.021,
                      'dt_bigendian': 0.139, 'prop_decades': 0.019, 'readonly': 0.32, 'caller_in': 0.146, 'caller_out': 0.021, 'keep_kw': 0.056,
                      'lefthanded': 0.18, 'lowertri_neg': 0.12, 'sym': 0.09, 'sym_diag': 0.056, 'sym_perm': 0.033, 'tiny_tilt': 0.064,
                      'tiny_cleaned': 0.042, 'tiny_1e-9_1e-5': 0.035, 'tiny_1e-5_1e-3': 0.022, 'near_face': 0.33},
           desc='System.model/System(model=) and dump/load system_model (text, stream, path): cell, origin, pbc, symbols, masses, '
                'every property incl. box-scaled storage, written and read under different working units'),
    Clause('elastic', oracle_elastic, g.elastic_cases, quick=3500, thorough=50000,
           min_share={'nt': 0.35, 'unit': 0.25, 'cfg_differ': 0.3, 'norm_family': 0.25, 'fam_isotropic': 0.05, 'fam_rhombohedral': 0.05,
                      'fam_triclinic': 0.05,
                      # classes carried over from the other properties (half of the smallest share seen at seeds 1, 2)
                      'near_sym': 0.127, 'near_sym_fine': 0.043, 'near_sym_coarse': 0.084, 'near_sym_cleaned': 0.023, 'relabelled': 0.12,
                      'caller_in': 0.22, 'caller_out': 0.032},
           desc='ElasticConstants.model(unit, crystal_system) -> ElasticConstants(model=) / .model(model=)'),
    Clause('history', oracle_history, g.history_cases, quick=2000, thorough=40000,
           min_share={# classes carried over from the other properties (half of the smallest share seen at seeds 1, 2)
                      'nt': 0.34, 'ledger': 0.5, 'ledger_mixed': 0.31, 'caller_in': 0.17, 'caller_out_model': 0.15, 'caller_out_object': 0.074,
                      'read_after_reset': 0.18, 'read_after_caller_in': 0.1, 'rebuild': 0.1, 'reset_units': 0.19, 'recv_existing': 0.067,
                      'r_system': 0.13, 'r_value': 0.14, 'r_box': 0.06, 'r_elastic': 0.05, 'w_scaled': 0.13},
           desc='one caller, one process: models of a value, a Box, a System and an ElasticConstants written, read back (new objects and '
                'existing ones), reset_units in between, the caller overwriting what it handed in and what it was handed out; every '
                'model and object handed out is judged again bit for bit after every later step, every input after every call'),
    Clause('options', oracle_options, enumerate=g.option_cases, quick=5000, thorough=50000,
           min_share={# classes carried over from the other properties (half of the smallest share seen at seeds 1, 2)
                      'nt': 0.33, 'scaled_without_pos': 0.024, 'scaled_2': 0.1, 'scaled_3': 0.014, 'pos_absent': 0.043, 'scaled_prop_pos_with_unit': 0.2},
           desc='enumerated: every combination and order of position unit (absent / None / angstrom / nm / scaled), two vector '
                'properties (absent / unit / scaled), prop_unit or prop_name+unit, box_unit, route and encoding on one tilted system'),
]
