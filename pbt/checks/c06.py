"""C06 - Per-atom data stays rectangular, row-aligned, unaliased under any edit sequence.

A case is {'init': {...}, 'ops': [op, ...]}: a history of Atoms/System operations.  The oracle interprets it
against the real atomman objects and against the independent record-per-atom model of
pbt/oracles/atoms_model.py, and checks all invariants after every step.  All generic numbers in an op
(property number, indices, counts, atom types) are resolved against the *current* state, so every sub-list of
a history is again a valid history.
"""
import copy
from collections import OrderedDict

import numpy as np
from hypothesis import strategies as st

from ..core import Clause, HarnessError, Violation, require
from ..oracles import atoms_model as M

RULE = ("histories of 1-30 operations on one System/Atoms pair (initial 1-6 atoms, 0-10 user properties of kinds "
        "int64/float64/bool/<U4 and trailing shapes (), (3,), (2,2)); operations: attribute / view / prop() whole-property "
        "set (scalar, length-1, full), indexed prop()/atoms_prop() set and get (int, negative int, numpy int, slice "
        "with steps and empty, int list with repeats and negatives, bool mask, a_id), prop_atype (all types / one type), "
        "Atoms.extend and System.atoms_extend (count or Atoms with subset/superset/overlapping property sets, scale, "
        "symbols, safecopy), __getitem__/atoms_ix/prop(index=)/deepcopy extraction (optionally continuing the history on "
        "the extracted object), __setitem__/atoms_ix set from fresh Atoms/System or from an overlapping slice of itself, "
        "scaled get/set, symbols/masses/pbc setters, df/atoms_df, documented refusals.  Values are handed over as fresh "
        "ndarray, nested list, tuple, non-contiguous / read-only ndarray, integer-typed whole numbers (int8..int64, uint8..uint64, bool for 0/1 floats, Python ints) or numpy scalars.  After "
        "every step the derived quantities (views, natoms, Atoms.natypes/atypes, System.symbols/masses/natypes/atypes, "
        "str(system), composition, pbc, df) are read in a generated order, with a generated subset of the per-type reads left "
        "out, so that the order and absence of reads is part of the history.  Cross-pollinated generator classes (see the comment "
        "above LEVEL_TEXT): every array / Atoms / list handed out is kept in a ledger and re-judged bit for bit after every "
        "later step, with calls on OTHER objects (operands and arguments of earlier operations, fresh one-atom objects built from "
        "the defaults) riding on one step in seven; everything handed in is compared bit for bit after the call, then overwritten "
        "in place by the caller and (arrays) re-used for a second call; values also come in float32 / float16 / big-endian dtypes "
        "and the object under test itself stores narrow, unsigned and big-endian dtypes in a fifth of the histories; float values "
        "also come near thresholds (whole number +- 2**-10...2**-38) and spanning 18 decades within one argument, every row "
        "judged by its own rounding bound; all atoms are selected through exactly structured permutations (identity, mirror, "
        "cyclic, halves, as list / slice / mask) and the object is assigned to itself through them; a second, enumerated clause "
        "runs every option combination of every entry point and every ordered pair of 42 operations through the same oracles.  "
        "Non-trivial: the history "
        "contains an extend* followed later by an indexed write, or a scaled extension, or a per-type assignment after "
        "the number of atom types grew")
ASSUMPTIONS = ["numpy indexing/assignment semantics (including 'last value wins' for repeated indices) are correct",
               "Box.position_relative_to_cartesian / position_cartesian_to_relative are decided by C01; here only dyadic cells and "
               "coordinates are used so that the scaled writes are exact",
               "a System with zero atoms is outside the domain (atomman cannot compute natypes for it); empty selections are "
               "explored at the Atoms level only",
               "float values are dyadic rationals, so model equality is exact equality",
               "numpy copies an overlapping right-hand side before an indexed assignment (object assigned to itself through a permutation)",
               "System.atoms_extend(safecopy=False) documents that objects may be shared with its input parameters, and the pbc setter "
               "keeps a bool ndarray it is given (numpy.asarray): those inputs are compared after the call but not overwritten by the caller",
               "atoms_prop(value=<Atoms>, scale=True) unscales the positions of the value it is given in place (tolerated since the first "
               "version of this check: the value's pos is exempt from the inputs-unchanged comparison on that route)"]
# Generator classes carried over from the other properties (seeded regressions, rounds 1-4), and where they live here:
#  A  result ledger            Run.keep / judge_ledger: arrays, Atoms objects and key lists handed out (as the caller left them after
#                              its own probe), operands and arguments of new-object operations; re-judged bit for bit after every
#                              later step; op_side makes the "later calls on other objects"          labels ledger*, side:*
#  B  caller-side mutation     Run.guarded (inputs bit-identical after the call: arrays, index objects, Atoms values, symbols /
#                              masses / pbc lists, constructor arguments), Run.mutate_in (the caller overwrites them in place),
#                              re-use of the overwritten array for a second call                     labels in_unchanged, mut:*
#  C  storage / input dtypes   value form 7 (float32, float16, big-endian), STORAGE (the object under test stores uint8 / int8 /
#                              uint16 / int16 / float32 / float16 / big-endian), refusal of atype 0 in unsigned dtypes; the
#                              integer-like input dtypes (form 5) were there already                 labels af:narrow*, sd*, refuse:atype0:*
#  D  working units            does not apply: nothing under C06 (Atoms / System per-atom accessors) converts units, has a default or
#                              tolerance in working units, or caches anything derived from a unit; Atoms.model / System.model, which
#                              do, belong to C10
#  E  near-threshold values    Src mode 'tiny' (whole number +- 2**-10 ... 2**-38, exact in every route); the one tolerance in the
#                              code under C06, numpy.allclose of the two boxes in atoms_ix[...] = System (a warning only), is
#                              straddled by boxes differing by 2**-8 ... 2**-43 (op field dbox)      labels vm:tiny, near:box
#  F  many decades             Src mode 'dec' (every row of one argument times its own 2**d, d = -30..30), rows judged by their own
#                              rounding bound (r2c_tol, rowtol) and against the single-row call      labels vm:dec, dec:8*, scaled_get_rowwise
#  G  exactly structured       index kind 'perm' (atoms_model.perm_index), self-assignment through it, extension by an Atoms with
#                              exactly the same property set in the same / reversed order; (equal counts, -1, overlapping slices,
#                              reversed property order were there already)                           labels idx:perm*, selfset_perm*, ext:*_order
#  H  enumerated options       clause 'options' (options_cases): option grids of every entry point, constructor grid, all ordered
#                              pairs (thorough: per-type-state triples); a_id spelling with value and scale added to the
#                              interpreter                                                           labels h:*, opt:aid_*
LEVEL_TEXT = ("Random edit histories (<= 30 steps) over every Atoms/System per-atom accessor named in the property, compared row by "
              "row after every step with an independent record-per-atom model, the derived quantities being read in a generated order "
              "(any subset of the per-type reads left out) and the values handed over in seven array_like forms; aliasing probed by mutating every array/object "
              "handed out by the copying accessors and re-checking operands of extend/atoms_extend at the end of the history; "
              "a bit-for-bit ledger of everything handed out and in, re-judged after every later step and after calls on other objects; "
              "narrow / unsigned / big-endian storage and input dtypes, near-threshold values and 18 decades in one argument, exactly "
              "structured selections; every option combination and every ordered pair of 42 operations enumerated.")
TECHNIQUE = ("model-based stateful testing: record-per-atom model, invariants after every step, aliasing probes, result ledger, "
             "inputs-unchanged comparison, refusal atomicity, enumerated option combinations")
WALL = {'quick': 45, 'thorough': 600}

KEY_SCALE = 'C06:atoms_extend:scale-true'
KEY_WIDTH = 'C06:extend:new-str-prop-width'
# finding (fixed in /repo by 2a7c2bf; the defect C05 reported as C05:pos-integer-typed:truncated-on-write, met here through another
# route): Atoms(pos=<whole numbers handed over integer-typed>) kept an integer dtype; atoms_prop(value=<such Atoms>, scale=True)
# writes the unscaled Cartesian positions back into that array before copying them over, so their fractional parts were lost.
# The key is kept: since it is no longer listed open, a recurrence is reported as an ordinary VIOLATION.
KEY_INTPOS = 'C06:pos-integer-typed:truncated-on-write'
NMAX = 40

BOXES = [
    ([[4.0, 0.0, 0.0], [0.0, 4.0, 0.0], [0.0, 0.0, 4.0]], [0.0, 0.0, 0.0]),
    ([[2.0, 0.0, 0.0], [0.0, 4.0, 0.0], [0.0, 0.0, 8.0]], [1.0, -2.0, 0.5]),
    ([[4.0, 0.0, 0.0], [1.0, 2.0, 0.0], [-0.5, 1.5, 8.0]], [0.25, 0.0, -1.0]),
    ([[2.0, 2.0, 0.0], [0.0, 2.0, 2.0], [2.0, 0.0, 2.0]], [-1.0, -1.0, -1.0]),
]
POOLNAMES = [p[0] for p in M.POOL]
FLOAT3 = ['pos', 'f3']


# ----------------------------------------------------------------------------- helpers (harness side)

# Forms in which a value is handed to the code under test (case field 'aslist'; False/True are the two original forms):
#   0 fresh C-contiguous ndarray of the model dtype      1 nested Python list
#   2 non-contiguous ndarray (strided view / Fortran order)   3 read-only ndarray
#   4 tuple of rows                                      5 integer-typed: whole-number floats / ints in an integer-like dtype
#   6 numpy scalars (a list of numpy scalars / of row arrays for a full value)
# All forms are array_like with the same values, so the model is the same for every form.  Form 5 needs whole-number float
# values (Src(whole=...)) and a float property that already exists (a *new* property rightly takes the dtype it is given);
# form 3 is kept away from the routes documented as storing the array itself (attribute/view set of a new key, Atoms()
# constructor of the object under test), where a read-only argument legitimately makes a read-only property.
# Form 5 comes in variants, encoded in the tens digit of the case field (5, 15, 25, ... 95; afc() = form, afv() = variant):
# the integer-like dtype the values are handed over in, INT_VARIANTS[variant].  Variant 0 is the original one (floats as int64,
# ints as int32).  Float values are generated to suit the variant (unsigned: non-negative whole numbers, bool: 0 / 1); where a
# value still does not fit (negative ints for an unsigned dtype, any int property for bool, |v| >= 128 for 8 bits) the
# signed / next wider dtype is taken.  'pyint' hands over nested lists of Python ints / a Python int.
# Form 7 (cross-pollinated storage / input dtype class): the values in a narrow or byte-swapped dtype of their own kind -
# float32 / float16 / big-endian float64 / big-endian float32 for float values (all values are exactly representable there;
# where one is not, big-endian float64 is taken), big-endian int64 / int32 / int16 / uint32 for integer values; encoded like
# form 5 in the tens digit (7, 17, 27, 37).  As for form 5, a property that does not exist yet is created with form 0.
AF_LABEL = {2: 'af:noncontig', 3: 'af:readonly', 4: 'af:tuple', 5: 'af:int', 6: 'af:npscalar', 7: 'af:narrow'}
FLT_VARIANTS = ['float32', 'float16', '>f8', '>f4']
BE_INT_VARIANTS = ['>i8', '>i4', '>i2', '>u4']
# storage dtypes of the object under test (case field init['sd'], 1-based index): the arrays given to the constructor are kept
# as they are ("direct setting"), so the properties are STORED in these dtypes for the whole history: 't' atom types, 'i'
# integer properties, 'p' three-component floats (pos, f3: also written through the scaled routes), 'f' the other floats.
# Every value generated for such a history (r/8, |r| < 2048; cell arithmetic on them < 2**24 / 16) is exactly representable.
STORAGE = [
    {'t': 'uint8', 'i': 'int16', 'p': 'float32', 'f': 'float16'},
    {'t': 'int8', 'i': 'int32', 'p': 'float32', 'f': 'float32'},
    {'t': '>i4', 'i': '>i8', 'p': '>f8', 'f': '>f4'},
    {'t': 'uint16', 'i': '>i2', 'p': '>f4', 'f': 'float16'},
    {'t': '>u2', 'i': 'int16', 'p': 'float32', 'f': '>f8'},
]
NPSCALAR = {'t': np.int64, 'i': np.int64, 'f': np.float64, 'b': np.bool_}
INT_VARIANTS = ['int64', 'int32', 'int16', 'int8', 'uint8', 'uint16', 'uint32', 'uint64', 'bool', 'pyint']


def afc(aslist):
    """form number (see the table) of the case field 'aslist'"""
    return int(aslist) % 10


def afv(aslist):
    """variant of form 5: index into INT_VARIANTS"""
    return (int(aslist) // 10) % len(INT_VARIANTS)


def whole_of(aslist):
    """the `whole` mode of the value source that suits the form: False, or True / 'u' / 'b' for the integer-typed form"""
    if afc(aslist) != 5:
        return False
    name = INT_VARIANTS[afv(aslist)]
    return 'b' if name == 'bool' else 'u' if name.startswith('uint') else True


def int_typed(arr, kind, variant, used=None):
    """arr (whole numbers, model dtype) in the integer-like dtype of the variant, or the nearest one that holds the values"""
    name = INT_VARIANTS[variant]
    if variant == 0:
        name = 'int64' if kind == 'f' else 'int32'          # the original form
    if name == 'pyint':
        if used is not None:
            used.add('af:int:pyint')
        return arr.astype(np.int64).tolist()
    if name == 'bool' and (kind != 'f' or not bool(np.all((arr == 0) | (arr == 1)))):      # bool stands for 0 / 1 float values only
        name = 'int8'
    if name.startswith('uint') and arr.size and float(arr.min()) < 0:
        name = name[1:]
    while name not in ('int64', 'uint64', 'bool'):
        info = np.iinfo(name)
        if arr.size == 0 or (info.min <= float(arr.min()) and float(arr.max()) <= info.max):
            break
        name = {'int8': 'int16', 'int16': 'int32', 'int32': 'int64', 'uint8': 'uint16', 'uint16': 'uint32', 'uint32': 'uint64'}[name]
    out = arr.astype(name)
    if not np.array_equal(out.astype(arr.dtype), arr):
        raise HarnessError('values %r do not fit %s' % (arr.tolist(), name))
    if used is not None:
        used.add('af:int:bool' if name == 'bool' else 'af:int:unsigned' if name.startswith('u') else
                 'af:int:int64' if name == 'int64' else 'af:int:narrow')
        if kind == 'f' and name != 'int64':
            used.add('af:int:float_as_not64')       # whole-number floats in an integer dtype other than the platform default
    return out


def narrow_typed(arr, kind, variant, used=None):
    """form 7: arr in a narrow / byte-swapped dtype of its own kind (values unchanged, checked)"""
    if kind == 'f':
        name = FLT_VARIANTS[variant % len(FLT_VARIANTS)]
        out = arr.astype(name)
        if not np.array_equal(out.astype(np.float64), arr):
            name = '>f8'
            out = arr.astype(name)
    elif kind in 'ti':
        name = BE_INT_VARIANTS[variant % len(BE_INT_VARIANTS)]
        if name == '>u4' and arr.size and int(arr.min()) < 0:
            name = '>i4'
        out = arr.astype(name)
        if not np.array_equal(out.astype(np.int64), arr):
            name = '>i8'
            out = arr.astype(name)
    else:
        return arr
    if not np.array_equal(out.astype(arr.dtype), arr):
        raise HarnessError('values %r do not fit %s' % (arr.tolist(), name))
    if used is not None:
        used.add(AF_LABEL[7])
        used.add('af:narrow:bigendian' if name.startswith('>') else 'af:narrow:' + name)
    return out


def freeze(obj):
    """bit-for-bit, hashable image of anything handed to or returned by the code under test (dtype, shape, bytes in C order,
    the writeable flag; containers recursively; an Atoms object as its ordered properties)"""
    if isinstance(obj, np.ndarray):
        return ('nd', obj.dtype.str, obj.shape, bool(obj.flags.writeable), obj.tobytes())
    if isinstance(obj, np.generic):
        return ('ns', obj.dtype.str, obj.tobytes())
    if isinstance(obj, (list, tuple)):
        return (type(obj).__name__,) + tuple(freeze(x) for x in obj)
    if isinstance(obj, slice):
        return ('slice', freeze(obj.start), freeze(obj.stop), freeze(obj.step))
    if obj is None or isinstance(obj, (bool, int, float, str)):
        return (type(obj).__name__, obj)
    if hasattr(obj, 'view') and hasattr(obj, 'natoms'):
        return ('atoms', obj.natoms) + tuple((k, freeze(v)) for k, v in obj.view.items())
    raise HarnessError('cannot freeze %r' % type(obj))


def frozen_diff(a, b):
    """where two images made by freeze() differ (short text for the report)"""
    def show(x):
        if x[0] == 'nd':
            return '%s%r%s %r' % (x[1], x[2], '' if x[3] else ' read-only', np.frombuffer(x[4], dtype=x[1]).reshape(x[2]).tolist())
        return repr(x)[:200]
    if a == b:
        return 'identical'
    if a[0] != b[0] or a[0] in ('nd', 'ns') or len(a) != len(b):
        return '%s -> %s' % (show(a), show(b))
    for i, (x, y) in enumerate(zip(a, b)):
        if x != y:
            if isinstance(x, tuple) and isinstance(y, tuple) and len(x) == 2 and len(y) == 2 and isinstance(x[0], str) \
                    and x[0] == y[0] and isinstance(x[1], tuple) and isinstance(y[1], tuple) and x[0] not in ('nd', 'ns'):
                return '%r: %s' % (x[0], frozen_diff(x[1], y[1]))
            if isinstance(x, tuple) and isinstance(y, tuple) and x and y:
                return 'item %d: %s' % (i - 1, frozen_diff(x, y))
            return '%r -> %r' % (x, y)
    return 'different'


def noncontig(arr):
    """an array equal to arr that is not C-contiguous (where the shape allows one)"""
    if arr.ndim >= 2 and arr.shape[0] % 2 == 0:
        return np.asfortranarray(arr)
    if arr.ndim == 0:
        return arr
    base = np.repeat(arr, 2, axis=0)
    return base[::2]


def to_arg(values, kind, tshape, aslist, used=None):
    """argument for the code under test: see the table of forms above; used (a set) receives the label of the form taken"""
    af = afc(aslist)
    arr = M.to_array(values, kind, tshape)
    if len(values) == 0:
        return arr
    if af in (1, 4, 6) and kind == 's':
        return arr
    if af == 1:
        return [M.tolist(v) for v in values]
    if af == 4:
        if used is not None:
            used.add(AF_LABEL[4])
        return tuple(M.tolist(v) for v in values)
    if af == 6:
        if used is not None:
            used.add(AF_LABEL[6])
        if tshape == ():
            return [NPSCALAR[kind](v) for v in values]
        return [np.array(M.tolist(v), dtype=M.DT[kind]) for v in values]
    if af == 2:
        out = noncontig(arr)
        if used is not None and not out.flags.c_contiguous:
            used.add(AF_LABEL[2])
        return out
    if af == 3:
        arr.setflags(write=False)
        if used is not None:
            used.add(AF_LABEL[3])
        return arr
    if af == 5:
        if (kind == 'f' and bool(np.all(arr == np.floor(arr)))) or kind in 'ti':
            if used is not None:
                used.add(AF_LABEL[5])
            return int_typed(arr, kind, afv(aslist), used)
    if af == 7:
        return narrow_typed(arr, kind, afv(aslist), used)
    return arr


def one_arg(v, kind, tshape, aslist, new=False, used=None):
    """a single per-atom value: Python scalar / nested list, or ndarray of shape tshape (forms as in to_arg)"""
    af = afc(aslist)
    if af in (5, 7) and new:
        af = 0
    if kind == 's':
        if new or af not in (1, 4):
            out = np.array(M.tolist(v), dtype='<U4')
            if af == 3:
                out.setflags(write=False)
            return out
        return M.tolist(v)
    if af == 1:
        return M.tolist(v)
    if af == 4:
        if tshape != () and used is not None:
            used.add(AF_LABEL[4])
        return tuple(M.tolist(v)) if tshape != () else v
    if af == 6 and tshape == ():
        if used is not None:
            used.add(AF_LABEL[6])
        return NPSCALAR[kind](v)
    arr = np.array(M.tolist(v), dtype=M.DT[kind])
    if af == 2 and tshape != ():
        out = noncontig(arr)
        if used is not None and not out.flags.c_contiguous:
            used.add(AF_LABEL[2])
        return out
    if af == 3:
        arr.setflags(write=False)
        if used is not None:
            used.add(AF_LABEL[3])
        return arr
    if af == 5:
        if (kind == 'f' and bool(np.all(arr == np.floor(arr)))) or kind in 'ti':
            if used is not None:
                used.add(AF_LABEL[5])
            if kind == 'f' and tshape == () and afv(aslist) in (0, INT_VARIANTS.index('pyint')):
                return int(v)
            out = int_typed(arr, kind, afv(aslist), used)
            return out[()] if tshape == () and isinstance(out, np.ndarray) and afv(aslist) % 2 else out     # numpy scalar / 0-d array
    if af == 7:
        out = narrow_typed(arr, kind, afv(aslist), used)
        return out[()] if tshape == () and afv(aslist) % 2 else out         # numpy scalar / 0-d array
    return arr


def index_obj(form, obj, as_np):
    """the object actually passed as index"""
    if form == 'all':
        return None
    if form == 'int':
        return np.int64(obj) if as_np else obj
    if form == 'slice':
        return obj
    if form == 'list':
        return np.array(obj, dtype=np.int64) if as_np else list(obj)
    if form == 'mask':
        return np.array(obj, dtype=bool) if as_np else list(obj)
    raise ValueError(form)


def first_diff(arr, exp):
    for i in range(len(exp)):
        if not np.array_equal(arr[i], exp[i]):
            return i
    return -1


def check_atoms(atoms, rows, schema, what, mirror=True, width=None, intok=False):
    """all structural invariants + model equality for one Atoms object (intok: an argument Atoms that the harness itself built
    from integer-typed whole numbers may hold its float properties as integers)"""
    n = len(rows)
    require(atoms.natoms == n and len(atoms) == n,
            lambda: '%s: natoms=%r len=%r, model has %d atoms' % (what, atoms.natoms, len(atoms), n))
    keys = list(atoms.view.keys())
    require(sorted(keys) == sorted(schema) and len(keys) == len(schema),
            lambda: '%s: property keys %r, model %r' % (what, keys, list(schema)))
    pk = atoms.prop()
    require(isinstance(pk, list) and sorted(pk) == sorted(schema), lambda: '%s: prop() lists %r, model %r' % (what, pk, list(schema)))
    for name, (kind, tshape) in schema.items():
        arr = atoms.view[name]
        require(isinstance(arr, np.ndarray), lambda: '%s: view[%r] is %r, not ndarray' % (what, name, type(arr)))
        require(arr.shape == (n,) + tuple(tshape),
                lambda: '%s: view[%r].shape=%r, expected %r (one entry per atom)' % (what, name, arr.shape, (n,) + tuple(tshape)))
        require(arr.dtype.kind in M.NPKIND[kind] or (intok and kind == 'f' and arr.dtype.kind in 'iub'),
                lambda: '%s: view[%r].dtype=%r, property was created as %s' % (what, name, arr.dtype, M.DT[kind]))
        if width is not None and kind == 's':
            require(arr.dtype.itemsize // 4 == width.get(name, 4),
                    lambda: '%s: view[%r].dtype=%r, the property was created as <U%d' % (what, name, arr.dtype, width.get(name, 4)))
        if mirror:
            require(getattr(atoms, name, None) is arr, lambda: '%s: atoms.%s is not view[%r]' % (what, name, name))
        exp = M.to_array([r[name] for r in rows], kind, tshape)
        if not np.array_equal(arr, exp):
            i = first_diff(arr, exp)
            raise Violation('%s: property %r row %d is %r, model says %r (all rows: %r vs model %r)'
                            % (what, name, i, arr[i].tolist(), exp[i].tolist(), arr.tolist(), exp.tolist()))
    if n:
        require(int(np.min(atoms.view['atype'])) >= 1, lambda: '%s: atype < 1: %r' % (what, atoms.view['atype']))


def scribble(arr):
    """overwrite an array in place with values different from anything the model holds"""
    if not isinstance(arr, np.ndarray) or arr.size == 0 or not arr.flags.writeable:
        return False
    k = arr.dtype.kind
    if k == 'b':
        arr[...] = ~arr
    elif k == 'U':
        arr[...] = '#'
    elif k in 'iu' and arr.dtype.itemsize < 8:
        arr[...] = ~arr             # narrow integer dtypes (integer-typed value forms): v -> -v-1 / max-v, never v itself
    else:
        arr[...] = arr + 1000
    return True


def flat_columns(name, tshape):
    """names of the DataFrame columns of a property, from the documented 'name[i][j]' convention"""
    if tshape == ():
        return [(name, ())]
    if len(tshape) == 1:
        return [('%s[%d]' % (name, i), (i,)) for i in range(tshape[0])]
    return [('%s[%d][%d]' % (name, i, j), (i, j)) for i in range(tshape[0]) for j in range(tshape[1])]


READS = ['atoms', 'natoms', 'ana', 'aat', 'sym', 'mas', 'nty', 'aty', 'str', 'comp', 'pbc', 'df']
PT = ['sym', 'mas', 'nty', 'aty', 'str', 'comp']      # reads that go through the lazily filled per-type tuples of System
NPERM = 479001600                                      # 12!


def read_order(o):
    """permutation of READS number o (factorial number system; 0 = the original fixed order)"""
    items = list(READS)
    out = []
    for k in range(len(items), 0, -1):
        out.append(items.pop(o % k))
        o //= k
    return out


# ----------------------------------------------------------------------------- the interpreter

class Run:
    def __init__(self, am, init):
        self.am = am
        self.labels = set()
        self.retired = []           # (what, Atoms object, rows, schema): operands of copying operations
        self.ext_seen = False
        self.growth = False
        self.where = 'init'
        self.na_hi = 0              # largest number of atom types since symbols was last set / read
        self.ns_hi = 0              # largest possible System.natypes since masses was last set / read
        self.prev_s = None
        self.ledger = []            # class A: [what, object, image made by freeze(), step it was made at, judged later?]
        self.stepno = -1
        self.side_step = -1         # last step at which a call was made on ANOTHER object
        # class C: storage dtypes of the object under test (only where the constructor keeps the arrays it is given)
        sd = init.get('sd') or 0
        self.storage = STORAGE[(sd - 1) % len(STORAGE)] if sd and init['ctor'] in ('arrays', 'prop') else None
        self.narrow = self.storage is not None
        m = self.m = M.Model()
        n = 1 + init['n'] % 6
        src = M.Src(init['vals'], tmax=3)
        ctor = init['ctor']
        aslist = ctor != 'arrays'
        if init.get('af') is not None and ctor in ('lists', 'arrays', 'prop'):
            aslist = init['af']          # 2 non-contiguous, 4 tuple, 6 numpy scalars (never 3 / 5: see the table of forms)
        self.bi = init['box'] % len(BOXES)
        self.V = np.array(BOXES[self.bi][0])
        self.o = np.array(BOXES[self.bi][1])
        self.Vinv = np.linalg.inv(self.V)
        box = am.Box(vects=self.V.copy(), origin=self.o.copy())
        if ctor == 'natoms':
            atoms = am.Atoms(natoms=n)
            m.rows = [{'atype': 1, 'pos': (0.0, 0.0, 0.0)} for _ in range(n)]
            m.schema = OrderedDict([('atype', ('t', ())), ('pos', ('f', (3,)))])
        elif ctor == 'bcast':
            t = src.scalar('t'); p = src.one('f', (3,))
            atoms = am.Atoms(natoms=n, atype=t, pos=[list(p)])    # length-1 forms broadcast to natoms
            m.rows = [{'atype': t, 'pos': p} for _ in range(n)]
            m.schema = OrderedDict([('atype', ('t', ())), ('pos', ('f', (3,)))])
        else:
            names = [nm for j, nm in enumerate(POOLNAMES) if (init['props'] >> j) & 1]
            atoms, m.rows, m.schema = self.build_atoms(n, names, src, aslist, via_prop=(ctor == 'prop'),
                                                       safecopy=bool(init['safecopy']), storage=self.storage)
            if self.narrow:
                self.labels.add('sd')
                self.labels.add('sd:bigendian' if any(v.dtype.byteorder == '>' for v in atoms.view.values()) else 'sd:native')
        # per-type data
        syms = init['symbols']
        masses = init['masses']
        na = m.natypes_atoms()
        if syms is None:
            nsys = max(na, len(masses) if masses is not None else 0)
        else:
            nsys = max(na, 1 if isinstance(syms, str) else len(syms))
        if masses is not None:
            masses = masses[:nsys]
        kw = {}
        if syms is not None:
            kw['symbols'] = syms if isinstance(syms, str) else list(syms)
        if masses is not None:
            kw['masses'] = list(masses)
        scale = bool(init['scale'])
        if scale:
            rel = [r['pos'] for r in m.rows]
        kw['pbc'] = list(init['pbc'])
        self.s = self.guarded(lambda: am.System(atoms=atoms, box=box, scale=scale, safecopy=bool(init['safecopy']), **kw),
                              kw, 'System(...)')
        if init.get('mut'):
            # class B: the caller goes on using the lists it handed in
            for lst, junk in ((kw['pbc'], None), (kw.get('symbols'), 'Zz'), (kw.get('masses'), 999.0)):
                if isinstance(lst, list):
                    if junk is None:
                        lst[0] = not lst[0]
                    else:
                        lst.append(junk)
                        lst[0] = junk
                    self.labels.add('mut:in')
        if syms is None:
            m.symbols = [None] * (len(masses) if masses is not None else 0)
        else:
            m.symbols = [syms] if isinstance(syms, str) else list(syms)
        m.masses = [None if x is None else float(x) for x in (masses or [])]
        m.pbc = [bool(x) for x in init['pbc']]
        if scale:
            self.sync_float3('pos', list(range(n)), [self.r2c(p) for p in rel], 'System(scale=True)')
            self.labels.add('init_scaled')
        self.prev_natypes = m.natypes_atoms()
        self.labels.add('ctor:' + ctor)
        self.check(rd=init.get('rd'))

    # ---- construction helpers
    def to_arg(self, values, kind, tshape, af):
        return to_arg(values, kind, tshape, af, used=self.labels)

    def one_arg(self, v, kind, tshape, af, new=False):
        return one_arg(v, kind, tshape, af, new=new, used=self.labels)

    def build_atoms(self, n, names, src, aslist, via_prop=False, safecopy=False, reverse=False, storage=None):
        rows = [dict() for _ in range(n)]
        schema = OrderedDict()
        kw = OrderedDict()
        for name in ['atype', 'pos'] + list(names):
            kind, tshape = M.KINDS[name]
            vals = src.many(kind, tshape, n)
            for r, v in zip(rows, vals):
                r[name] = v
            schema[name] = (kind, tshape)
            # integer-typed form only for properties the object under test already has (as float64): a property that
            # only the argument has rightly keeps the integer dtype it was given
            af = aslist if (afc(aslist) not in (5, 7) or name in self.m.schema) else 0
            if afc(af) == 7 and name in FLOAT3 and FLT_VARIANTS[afv(af) % len(FLT_VARIANTS)] == 'float16':
                af = 7          # positions of an argument are unscaled in place by the scaled routes: float32 holds those values
            kw[name] = self.to_arg(vals, kind, tshape, af)
            if storage is not None and kind != 'b' and kind != 's':
                dt = storage['t' if kind == 't' else 'i' if kind == 'i' else 'p' if name in FLOAT3 else 'f']
                arr = M.to_array(vals, kind, tshape)
                out = arr.astype(dt)
                if not np.array_equal(out.astype(arr.dtype), arr):
                    raise HarnessError('values %r do not fit the storage dtype %s' % (arr.tolist(), dt))
                kw[name] = out
        if reverse:
            kw = OrderedDict(reversed(list(kw.items())))
        if via_prop:
            atoms = self.guarded(lambda: self.am.Atoms(prop=dict(kw)), kw, 'Atoms(prop=...)')
        elif safecopy:
            atoms = self.guarded(lambda: self.am.Atoms(safecopy=True, **kw), kw, 'Atoms(..., safecopy=True)')
        else:
            atoms = self.guarded(lambda: self.am.Atoms(**kw), kw, 'Atoms(...)')
        return atoms, rows, schema

    def r2c(self, rel):
        x = np.array(rel, dtype=float) @ self.V + self.o
        return tuple(float(c) for c in x)

    def c2r(self, arr):
        return (np.asarray(arr, dtype=float) - self.o) @ self.Vinv

    def reltol(self, x):
        x = np.asarray(x, dtype=float)
        mag = (float(np.abs(x).max()) if x.size else 0.0) + float(np.abs(self.o).max())
        return 1e-12 * (1.0 + mag) * float(np.abs(self.Vinv).sum(axis=0).max()) * 3

    def rowtol(self, x):
        """class F: tolerance of a scaled read row by row - (x - origin).Vinv of one atom depends on that atom alone, so each
        row is judged relative to ITS OWN magnitude (never looser than reltol of the whole array); shape x.shape[:-1] + (1,)"""
        x = np.asarray(x, dtype=float)
        mag = np.abs(x).max(axis=-1, keepdims=True) + float(np.abs(self.o).max())
        return 1e-12 * mag * float(np.abs(self.Vinv).sum(axis=0).max()) * 3 + 1e-300

    def r2c_tol(self, rel):
        """forward error bound of rel.V + o in double precision for one row, any order of summation, with a margin of 10"""
        r = np.abs(np.array(rel, dtype=float))
        return 1e-14 * (r @ np.abs(self.V) + np.abs(self.o))

    def sync_float3(self, name, sel, expected, what, atoms=None, rows=None, rel=None):
        """after a scaled write: stored Cartesian values must equal rel.V+o (1e-12 relative); the model then takes
        the stored numbers (they are exact for the dyadic cells used here, so this normally changes nothing)"""
        atoms = self.s.atoms if atoms is None else atoms
        rows = self.m.rows if rows is None else rows
        arr = atoms.view[name]
        require(isinstance(arr, np.ndarray) and arr.shape == (atoms.natoms, 3) and arr.dtype.kind == 'f',
                lambda: '%s %s: view[%r] has shape %r dtype %r' % (self.where, what, name, getattr(arr, 'shape', None), getattr(arr, 'dtype', None)))
        k = 0
        for i, e in zip(sel, expected):
            require(i < len(arr), lambda: '%s %s: row %d missing' % (self.where, what, i))
            got = arr[i]
            tol = 1e-12 * (1.0 + max(abs(c) for c in e))
            if rel is not None:
                # classes E / F: the relative coordinates handed in are known, so is the rounding error bound of the row
                tol = np.minimum(tol, self.r2c_tol(rel[min(k, len(rel) - 1)]))
            k += 1
            require(bool(np.all(np.abs(got - np.array(e)) <= tol)),
                    lambda: '%s %s: %s row %d is %r, expected rel.vects+origin = %r' % (self.where, what, name, i, got.tolist(), list(e)))
            if tuple(got.tolist()) != tuple(e):
                self.labels.add('resync')
            rows[i][name] = tuple(float(c) for c in got)

    def rewrap(self, atoms):
        """continue the history on a new Atoms object: same box/pbc/symbols, masses cut to the new number of types"""
        m = self.m
        nsys = max(len(m.symbols), m.natypes_atoms())
        m.masses = m.masses[:nsys]
        self.s = self.am.System(atoms=atoms, box=self.s.box, pbc=list(m.pbc), symbols=list(m.symbols), masses=list(m.masses))
        self.na_hi = self.ns_hi = 0

    def retire(self, what, atoms, rows, schema, intok=False, free=True):
        """operand / argument of an operation returning a new object: judged against its own rows at the end of the history,
        bit for bit after every later step (ledger), and the target of calls 'on another object' (op side; written to only
        when free: no sharing with the object under test is documented for it)"""
        self.retired.append((what, atoms, [dict(r) for r in rows], OrderedDict(schema), intok, free))
        self.keep('operand: ' + what, atoms)

    # ---- class A: the ledger of everything handed out
    def keep(self, what, obj):
        """remember a returned object as it is now; it is re-judged bit for bit after every later step"""
        if len(self.ledger) < 48:
            self.ledger.append([what, obj, freeze(obj), self.stepno, self.where])

    def rekeep(self, obj):
        """the harness itself changed a kept object (side write): take its new image"""
        for e in self.ledger:
            if e[1] is obj:
                e[2] = freeze(obj)

    def forget(self, obj):
        self.ledger = [e for e in self.ledger if e[1] is not obj]

    def judge_ledger(self):
        for what, obj, image, step, where in self.ledger:
            now = freeze(obj)
            require(now == image,
                    lambda: '%s: the result handed out at %s (%s) changed during a later call: %s' % (self.where, where, what, frozen_diff(image, now)))
            if step < self.stepno:
                self.labels.add('ledger')
                self.labels.add('ledger:atoms' if image[0] == 'atoms' else 'ledger:array' if image[0] == 'nd' else 'ledger:list')
                if step < self.side_step:
                    self.labels.add('ledger:across_objects')

    # ---- class B: what the caller handed in
    def guarded(self, fn, handed, what, skip=()):
        """run fn(); every object handed in (name -> object) must be bit-identical afterwards (Atoms: all properties but skip)"""
        def image(v):
            f = freeze(v)
            if skip and f[0] == 'atoms':
                f = tuple(x for x in f if not (isinstance(x, tuple) and x[0] in skip))
            return f
        before = dict((k, image(v)) for k, v in handed.items())
        out = fn()
        for k, v in handed.items():
            now = image(v)
            require(now == before[k], lambda: '%s %s: the argument %r handed in was modified by the call: %s'
                    % (self.where, what, k, frozen_diff(before[k], now)))
        self.labels.add('in_unchanged')
        return out

    def mutate_in(self, op, *objs):
        """class B: after the call the caller overwrites in place what it handed in (arrays; Atoms: every property)"""
        if not op.get('mut'):
            return False
        done = False
        for o in objs:
            if isinstance(o, np.ndarray):
                done = scribble(o) or done
            elif hasattr(o, 'view') and hasattr(o, 'natoms'):
                for arr in o.view.values():
                    done = scribble(arr) or done
            elif isinstance(o, list) and o:
                o[0] = o[-1]
                o.append(o[0])
                done = True
        if done:
            self.labels.add('mut:in')
        return done

    def reusable(self, arg, kind):
        """the scribbled argument can be handed in again as a value of the same property: its values survive the cast to the
        property's dtype and back"""
        if self.narrow or kind == 't' or not isinstance(arg, np.ndarray):
            return False
        if arg.dtype.kind == 'U':
            return kind == 's'
        back = arg.astype(M.DT[kind]).astype(arg.dtype)
        return bool(np.array_equal(back, arg))

    def vmode(self, op, aslist=0):
        """class E / F: mode of the generated float values (None / 'tiny' / 'dec'); plain where whole numbers are needed or
        the object under test stores narrow dtypes"""
        vm = op.get('vm')
        if vm is None or self.narrow or whole_of(aslist):
            return None
        self.labels.add('vm:' + vm)
        return vm

    # ---- invariants of the main object
    # The derived quantities are *read* in an order that is part of the generated history (rd['o'], decoded by read_order), and
    # any subset of the per-type reads (PT) can be left out at a step (bit j of rd['skip'] leaves out PT[j]): the getters of
    # symbols / masses / natypes fill the stored tuples lazily, so what one read returns may depend on which reads came before.
    # Every read is judged on its own, against the model only (never against a value read from the object earlier).
    # The model keeps the symbols / masses lists as last set or last read.  The property demands "never shorter than the number
    # of atom types"; the padding itself is with None, and it may or may not have been stored during steps at which nothing was
    # read (other operations may read internally).  So a read must return  base + [None]*k  with
    #     max(len(base), types now)  <=  len  <=  max(len(base), largest number of types since the last read);
    # with a read at every step both bounds coincide and this is the exact comparison made before.
    def sym_bounds(self):
        b = len(self.m.symbols)
        na = self.m.natypes_atoms()
        return max(b, na), max(b, na, self.na_hi)

    def padded(self, got, base, lo, hi, what):
        w = self.where
        na = self.m.natypes_atoms()
        require(isinstance(got, tuple) and len(got) >= na, lambda: '%s: %s %r shorter than the %d atom types' % (w, what, got, na))
        require(lo <= len(got) <= hi and list(got[:len(base)]) == base and all(x is None for x in got[len(base):]),
                lambda: '%s: %s %r, model %r padded with None to %s entries'
                % (w, what, got, base, lo if lo == hi else 'between %d and %d' % (lo, hi)))
        if lo != hi:
            self.labels.add('pad_uncertain')

    def read(self, item, df=False):
        s, m = self.s, self.m
        w = self.where
        atoms = s.atoms
        na = m.natypes_atoms()
        if item == 'atoms':
            check_atoms(atoms, m.rows, m.schema, w, width=m.width)
        elif item == 'natoms':
            require(s.natoms == m.n and len(s) == m.n, lambda: '%s: System.natoms=%r, model %d' % (w, s.natoms, m.n))
        elif item == 'ana':
            require(atoms.natypes == na, lambda: '%s: Atoms.natypes=%r, max(atype)=%d' % (w, atoms.natypes, na))
        elif item == 'aat':
            require(tuple(atoms.atypes) == tuple(range(1, na + 1)), lambda: '%s: Atoms.atypes=%r' % (w, atoms.atypes))
        elif item == 'sym':
            lo, hi = self.sym_bounds()
            sy = s.symbols
            self.padded(sy, m.symbols, lo, hi, 'symbols')
            m.symbols = list(sy)
            self.na_hi = na
        elif item == 'mas':
            lo_s, hi_s = self.sym_bounds()
            b = len(m.masses)
            ma = s.masses
            self.padded(ma, m.masses, max(b, lo_s), max(b, hi_s, self.ns_hi), 'masses')
            require(all(x is None or isinstance(x, float) for x in ma), lambda: '%s: masses %r, not None / float' % (w, ma))
            m.masses = list(ma)
            self.ns_hi = 0
        elif item == 'nty':
            lo, hi = self.sym_bounds()
            got = s.natypes
            require(isinstance(got, (int, np.integer)) and lo <= got <= hi,
                    lambda: '%s: System.natypes=%r, model %s' % (w, got, lo if lo == hi else 'between %d and %d' % (lo, hi)))
        elif item == 'aty':
            lo, hi = self.sym_bounds()
            got = s.atypes
            require(isinstance(got, tuple) and lo <= len(got) <= hi and got == tuple(range(1, len(got) + 1)),
                    lambda: '%s: System.atypes=%r, model 1..%s' % (w, got, lo if lo == hi else '(%d to %d)' % (lo, hi)))
        elif item == 'str':
            text = str(s)
            require(isinstance(text, str) and len(text) > 0, lambda: '%s: str(system) = %r' % (w, text))
        elif item == 'comp':
            # docstring: "reduced and sorted symbols composition.  Will return None if any symbols are missing"; judged only
            # where that is unambiguous: str when every atom type up to the current number of types has a symbol, None when the
            # type of some atom has none
            got = s.composition
            present = sorted(set(r['atype'] for r in m.rows))
            have = [t for t in present if t <= len(m.symbols) and m.symbols[t - 1] is not None]
            if len(have) < len(present):
                require(got is None, lambda: '%s: composition=%r although an atom type in use has no symbol (symbols %r)' % (w, got, m.symbols))
            elif all(x is not None for x in m.symbols):
                require(isinstance(got, str) and all(m.symbols[t - 1] in got for t in present),
                        lambda: '%s: composition=%r, symbols %r, atom types in use %r' % (w, got, m.symbols, present))
        elif item == 'pbc':
            pbc = s.pbc
            require(isinstance(pbc, np.ndarray) and pbc.shape == (3,) and pbc.dtype == bool and pbc.tolist() == m.pbc,
                    lambda: '%s: pbc %r, model %r' % (w, pbc, m.pbc))
        elif item == 'df':
            if df:
                self.check_df(atoms.df(), False, 'df()')
        else:
            raise ValueError(item)

    def check(self, df=False, rd=None):
        m = self.m
        rd = rd or {}
        order = read_order(int(rd.get('o', 0)))
        skip = int(rd.get('skip', 0))
        left_out = set(PT[j] for j in range(len(PT)) if (skip >> j) & 1)
        na = m.natypes_atoms()
        grown = na > self.prev_natypes
        if grown:
            self.growth = True
            self.labels.add('type_growth')
        # growth on the same System object (indexed / whole / Atoms-valued atype write), as opposed to a new System
        inplace = grown and self.s is self.prev_s
        self.prev_s = self.s
        self.prev_natypes = na
        self.na_hi = max(self.na_hi, na)
        self.ns_hi = max(self.ns_hi, self.sym_bounds()[1])
        if order != READS:
            self.labels.add('rd:permuted')
        if left_out:
            self.labels.add('rd:quiet' if len(left_out) == len(PT) else 'rd:subset')
        first_pt = True
        for item in order:
            if item in left_out:
                continue
            if item in PT:
                if first_pt and item != 'sym':
                    self.labels.add('rd:%s_first' % item)
                    if inplace:
                        self.labels.add('rd:%s_first_after_inplace_growth' % item)
                first_pt = False
            self.read(item, df=df)
        if inplace and left_out and first_pt:
            self.labels.add('rd:quiet_after_inplace_growth')
        self.judge_ledger()

    def check_df(self, df, scaled, what):
        m = self.m
        w = self.where
        cols = [str(c) for c in df.columns]
        expcols = []
        for name, (kind, tshape) in m.schema.items():
            expcols.extend(c for c, _ in flat_columns(name, tshape))
        require(sorted(cols) == sorted(expcols), lambda: '%s %s: columns %r, expected %r' % (w, what, cols, expcols))
        require(len(df) == m.n, lambda: '%s %s: %d rows for %d atoms' % (w, what, len(df), m.n))
        for name, (kind, tshape) in m.schema.items():
            full = m.stack(name)
            if scaled and name == 'pos':
                full = self.c2r(full)
            for col, ix in flat_columns(name, tshape):
                got = list(df[col])
                exp = full[(Ellipsis,) + ix].tolist() if ix else full.tolist()
                if scaled and name == 'pos':
                    tol = np.minimum(self.reltol(m.stack('pos')), self.rowtol(m.stack('pos')))[:, 0]      # row by row (class F)
                    ok = all(abs(float(g) - e) <= t for g, e, t in zip(got, exp, tol))
                else:
                    ok = all((g == e) for g, e in zip(got, exp))
                require(ok, lambda: '%s %s: column %r is %r, model %r' % (w, what, col, got, exp))

    def finish(self, rd=None):
        self.where = 'end'
        self.stepno = 10 ** 6
        self.check(df=True, rd=rd)
        for what, atoms, rows, schema, intok, free in self.retired:
            check_atoms(atoms, rows, schema, 'at the end of the history, operand of %s' % what, intok=intok)

    # ---- name / value resolution
    def existing(self, k, only=None):
        keys = [x for x in self.m.schema if only is None or x in only]
        return keys[k % len(keys)]

    def anyname(self, k, atype=True):
        names = M.ALLNAMES if atype else M.ALLNAMES[1:]
        return names[k % len(names)]

    # ---- one step
    def step(self, k, op):
        name = op['op']
        self.where = 'step %d (%s)' % (k, name)
        self.stepno = k
        self.labels.add('op:' + name)
        getattr(self, 'op_' + name)(op)
        if op.get('side') is not None and name != 'side':
            # classes A / B: in the same step, after the operation, a call on ANOTHER object (see op_side)
            self.labels.add('op:side')
            self.op_side(op['side'])
        self.check(df=(k % 5 == 4), rd=op.get('rd'))

    def refusal(self, fn, exc, msg, what):
        """fn must raise exc with msg in the text; the invariants check that follows shows the state is unchanged"""
        try:
            fn()
        except exc as e:
            require(msg in str(e), lambda: '%s %s: raised %s(%r), documented message contains %r' % (self.where, what, type(e).__name__, str(e), msg))
            self.labels.add('refusal')
            return True
        raise Violation('%s %s: no %s raised' % (self.where, what, exc.__name__))

    # whole-property assignment ---------------------------------------------------------------
    def op_set(self, op):
        m, s = self.m, self.s
        atoms = s.atoms
        name = self.anyname(op['name'])
        kind, tshape = M.KINDS[name]
        new = name not in m.schema
        n = m.n
        aslist = op['aslist']
        src = M.Src(op['vals'], tmax=op['tmax'], whole=whole_of(aslist), mode=self.vmode(op, aslist))
        mode = op['mode']
        if new and (afc(aslist) in (5, 7) or (afc(aslist) == 3 and op['via'] in ('attr', 'view'))):
            aslist = 0          # see the table of forms
        if mode == 'scalar' and tshape != ():
            mode = 'len1'
        if mode == 'scalar':
            v = src.one(kind, ())
            arg = self.one_arg(v, kind, (), aslist, new=True)
            values = [v] * n
        elif mode == 'len1':
            v = src.one(kind, tshape)
            arg = self.to_arg([v], kind, tshape, aslist)
            values = [v] * n
        else:
            values = src.many(kind, tshape, n)
            arg = self.to_arg(values, kind, tshape, aslist)
        via = op['via']
        self.labels.add('set:' + mode)
        self.labels.add('set_new' if new else 'set_overwrite')
        if src.exps and max(src.exps) - min(src.exps) >= 27:
            self.labels.add('dec:8')        # one argument whose rows span 8+ decades
        what = 'set of %r through %s' % (name, via)

        def put():
            if via == 'attr':
                setattr(atoms, name, arg)
            elif via == 'view':
                atoms.view[name] = arg
            elif via == 'prop':
                atoms.prop(key=name, value=arg)
            else:
                s.atoms_prop(key=name, value=arg)
        self.guarded(put, {'value': arg}, what)
        m.set_all(name, values)
        if via in ('prop', 'sysprop'):
            if scribble(arg):
                self.labels.add('probe_prop_set_copy')   # "set copy of value to property"
        elif new and mode == 'full':
            return      # attribute / view set of a new key with a full array: the array itself may be stored (see the forms)
        elif not self.mutate_in(op, arg):
            return
        if op.get('mut') == 2 and self.reusable(arg, kind) and isinstance(arg, np.ndarray) and arg.flags.writeable:
            # class B: the caller re-uses the array it has just overwritten for the next call: the property follows it
            check_atoms(atoms, m.rows, m.schema, '%s: after the caller overwrote the array handed to the %s' % (self.where, what), width=m.width)
            values2 = M.from_array(arg, kind, tshape, n)
            self.guarded(put, {'value': arg}, what + ' (array re-used)')
            m.set_all(name, values2)
            self.labels.add('mut:reuse')

    # indexed assignment -----------------------------------------------------------------------
    def resolve(self, spec, force_int=False, nonempty=False):
        n = self.m.n
        if force_int and spec['k'] not in ('int', 'neg'):
            spec = {'k': 'int', 'a': spec.get('a') or 0, 'np': False}
        form, obj, sel = M.resolve_index(spec, n)
        if spec['k'] == 'perm':
            self.labels.add('idx:perm')
            self.labels.add('idx:perm:' + M.PERMS[spec['p'] % len(M.PERMS)])
        if nonempty and not sel:
            form, obj, sel = 'int', 0, [0]
            self.labels.add('empty_replaced')
        self.labels.add('idx:' + form)
        if form == 'int' and obj == -1:
            self.labels.add('idx:-1')
        if not sel:
            self.labels.add('idx:empty')
        if form == 'list' and len(set(sel)) < len(sel):
            self.labels.add('idx:repeat')
        if form == 'slice' and obj.step not in (None, 1):
            self.labels.add('idx:step')
        return form, index_obj(form, obj, bool(spec.get('np'))), sel

    def indexed_write(self):
        self.labels.add('indexed_write')
        if self.ext_seen:
            self.labels.update({'ext_then_write', 'nt'})

    def op_setidx(self, op):
        m, s = self.m, self.s
        atoms = s.atoms
        name = self.existing(op['name'])
        kind, tshape = m.schema[name]
        via = op['via']
        form, idx, sel = self.resolve(op['idx'], force_int=(via == 'a_id'))
        if form == 'all':
            idx = slice(None)
        aslist = op['aslist']
        src = M.Src(op['vals'], tmax=op['tmax'], whole=whole_of(aslist), mode=self.vmode(op, aslist))
        if form == 'int' or op['vmode'] == 'one':
            v = src.one(kind, tshape)
            arg = self.one_arg(v, kind, tshape, aslist)
            values = [v]
        else:
            values = src.many(kind, tshape, len(sel))
            arg = self.to_arg(values, kind, tshape, aslist)
        if src.exps and max(src.exps) - min(src.exps) >= 27:
            self.labels.add('dec:8')

        def put():
            if via == 'prop':
                atoms.prop(key=name, index=idx, value=arg)
            elif via == 'sysprop':
                s.atoms_prop(key=name, index=idx, value=arg)
            elif via == 'a_id':
                atoms.prop(key=name, a_id=idx, value=arg)
            else:
                atoms.view[name][idx] = arg        # documented in-place route: view hands out the storage itself
        what = 'indexed set of %r through %s' % (name, via)
        self.guarded(put, {'value': arg, 'index': idx}, what)
        m.set_rows(name, sel, values)
        self.indexed_write()
        if self.mutate_in(op, arg) and op.get('mut') == 2 and sel and self.reusable(arg, kind) and arg.flags.writeable:
            check_atoms(atoms, m.rows, m.schema, '%s: after the caller overwrote the array handed to the %s' % (self.where, what), width=m.width)
            count = 1 if (form == 'int' or op['vmode'] == 'one') else len(sel)
            values2 = M.from_array(arg, kind, tshape, count)
            self.guarded(put, {'value': arg, 'index': idx}, what + ' (array re-used)')
            m.set_rows(name, sel, values2)
            self.labels.add('mut:reuse')

    def op_scaled_set(self, op):
        m, s = self.m, self.s
        vm = self.vmode(op, op['aslist'])
        src = M.Src(op['vals'], whole=whole_of(op['aslist']), mode=vm)
        name = FLOAT3[op['name'] % 2]
        spec = op['idx']
        if name not in m.schema and (spec['k'] != 'all' or op.get('aid')):
            name = 'pos'
        form, idx, sel = self.resolve(spec, force_int=bool(op.get('aid')))
        if form == 'all':
            mode = 'full' if op['vmode'] == 'many' else 'len1'
            rel = src.many('f', (3,), m.n) if mode == 'full' else [src.one('f', (3,))]
            arg = self.to_arg(rel, 'f', (3,), op['aslist'])
            self.guarded(lambda: s.atoms_prop(key=name, value=arg, scale=True), {'value': arg}, 'atoms_prop(%r, value, scale=True)' % name)
            if name not in m.schema:
                m.set_all(name, [(0.0, 0.0, 0.0)] * m.n)
            exp = [self.r2c(r) for r in rel] * (m.n if mode == 'len1' else 1)
            self.sync_float3(name, sel, exp, 'atoms_prop(%r, value, scale=True)' % name, rel=rel if vm else None)
        else:
            if form == 'int' or op['vmode'] == 'one':
                rel = [src.one('f', (3,))]
                arg = self.one_arg(rel[0], 'f', (3,), op['aslist'])
            else:
                rel = src.many('f', (3,), len(sel))
                arg = self.to_arg(rel, 'f', (3,), op['aslist'])
            if op.get('aid'):
                # class H: the a_id spelling of an integer index together with value and scale
                self.guarded(lambda: s.atoms_prop(key=name, a_id=idx, value=arg, scale=True), {'value': arg, 'a_id': idx},
                             'atoms_prop(%r, a_id, value, scale=True)' % name)
                self.labels.add('opt:aid_scaled_set')
            else:
                self.guarded(lambda: s.atoms_prop(key=name, index=idx, value=arg, scale=True), {'value': arg, 'index': idx},
                             'atoms_prop(%r, index, value, scale=True)' % name)
            exp = [self.r2c(r) for r in rel]
            rels = list(rel)
            if len(exp) == 1 and len(sel) != 1:
                exp = exp * len(sel)
                rels = rels * len(sel)
            # repeated rows: last value wins
            last = {}
            for i, e, r in zip(sel, exp, rels):
                last[i] = (e, r)
            self.sync_float3(name, list(last), [last[i][0] for i in last], 'atoms_prop(%r, index, value, scale=True)' % name,
                             rel=[last[i][1] for i in last] if vm else None)
            self.indexed_write()
        if src.exps and max(src.exps) - min(src.exps) >= 27:
            self.labels.add('dec:8')
            self.labels.add('dec:8:scaled')
        self.mutate_in(op, arg)

    # reads ------------------------------------------------------------------------------------
    def op_get(self, op):
        m, s = self.m, self.s
        atoms = s.atoms
        via = op['via']
        name = self.existing(op['name'], only=FLOAT3 if via == 'scaled' else None)
        kind, tshape = m.schema[name]
        form, idx, sel = self.resolve(op['idx'], force_int=(via == 'a_id'))
        if via == 'prop':
            got = atoms.prop(key=name) if form == 'all' else atoms.prop(key=name, index=idx)
        elif via == 'a_id':
            got = atoms.prop(key=name, a_id=idx)
        elif via == 'sysprop':
            got = s.atoms_prop(key=name) if form == 'all' else s.atoms_prop(key=name, index=idx)
        elif form == 'int' and op['name'] % 2:
            got = s.atoms_prop(key=name, a_id=idx, scale=True)
        else:
            got = s.atoms_prop(key=name, scale=True) if form == 'all' else s.atoms_prop(key=name, index=idx, scale=True)
        full = m.stack(name)
        exp = full[sel[0]] if form == 'int' else m.stack(name, m.select(sel))
        ga = np.asarray(got)
        require(ga.shape == exp.shape, lambda: '%s: %s get of %r index %r has shape %r, expected %r' % (self.where, via, name, idx, ga.shape, exp.shape))
        if via == 'scaled':
            expr = self.c2r(exp)
            tol = np.minimum(self.reltol(exp), self.rowtol(exp))       # row by row (class F)
            require(bool(np.all(np.abs(ga - expr) <= tol)),
                    lambda: '%s: scaled get of %r index %r = %r, expected %r' % (self.where, name, idx, ga.tolist(), expr.tolist()))
            self.labels.add('scaled_get')
            if exp.ndim == 2 and 2 <= len(sel) <= 4:
                # class F: every row of the array call equals the single-row call (to a few ulp of that row's own terms)
                for j, i in enumerate(sel):
                    one = np.asarray(s.atoms_prop(key=name, index=i, scale=True))
                    require(one.shape == (3,) and bool(np.all(np.abs(one - ga[j]) <= 1e-3 * self.rowtol(exp[j]))),
                            lambda: '%s: scaled get of %r index %r: row %d is %r, the call for atom %d alone gives %r'
                            % (self.where, name, idx, j, ga[j].tolist(), i, one.tolist()))
                self.labels.add('scaled_get_rowwise')
            mags = np.abs(exp).max(axis=-1) if exp.ndim == 2 and len(exp) else np.zeros(0)
            mags = mags[mags > 0]
            if len(mags) >= 2 and mags.max() / mags.min() >= 1e8:
                self.labels.add('dec:8:scaled_get')
        else:
            require(ga.dtype.kind in M.NPKIND[kind] and np.array_equal(ga, exp),
                    lambda: '%s: %s get of %r index %r = %r, model %r' % (self.where, via, name, idx, ga.tolist(), exp.tolist()))
        if isinstance(got, np.ndarray) and got.ndim > 0:
            require(not np.shares_memory(got, atoms.view[name]),
                    lambda: '%s: array returned by %s get of %r index %r shares memory with the stored property' % (self.where, via, name, idx))
            if scribble(got):
                self.labels.add('probe_get_copy')
        if isinstance(got, (np.ndarray, np.generic)):
            self.keep('%s get of %r index %r' % (via, name, idx), got)      # class A (as the caller left it)

    def op_getatoms(self, op):
        m, s = self.m, self.s
        atoms = s.atoms
        via = op['via']
        adopt = bool(op['adopt'])
        form, idx, sel = self.resolve(op['idx'], nonempty=(via == 'atoms_ix' or adopt), force_int=(via == 'a_id'))
        rows = m.select(sel)
        schema = OrderedDict(m.schema)
        copying = via in ('prop', 'a_id', 'sysprop', 'scaled', 'deepcopy', 'deepcopy_sys')
        subsys = None
        what = '%s extraction with index %r' % (via, idx)
        if via == 'getitem':
            sub = atoms[slice(None) if form == 'all' else idx]
        elif via == 'atoms_ix':
            subsys = s.atoms_ix[slice(None) if form == 'all' else idx]
            sub = subsys.atoms
        elif via == 'prop':
            if form == 'all':
                keys = atoms.prop()
                require(isinstance(keys, list) and sorted(keys) == sorted(m.schema), lambda: '%s: prop() = %r' % (self.where, keys))
                keys.append('junk')     # a fresh list: appending must not create a property
                self.keep('prop() key list', keys)
                return
            sub = atoms.prop(index=idx)
        elif via == 'a_id':
            sub = atoms.prop(a_id=idx)
        elif via == 'sysprop':
            if form == 'all':
                keys = s.atoms_prop()
                require(isinstance(keys, list) and sorted(keys) == sorted(m.schema), lambda: '%s: atoms_prop() = %r' % (self.where, keys))
                return
            sub = s.atoms_prop(index=idx)
        elif via == 'scaled':
            sub = s.atoms_prop(scale=True) if form == 'all' else s.atoms_prop(index=idx, scale=True)
            got = sub.view['pos']
            exp = self.c2r(m.stack('pos', rows))
            require(got.shape == exp.shape and bool(np.all(np.abs(got - exp) <= np.minimum(self.reltol(m.stack('pos', rows)), self.rowtol(m.stack('pos', rows))))),
                    lambda: '%s: %s: scaled pos %r, expected %r' % (self.where, what, got.tolist(), exp.tolist()))
            for r, g in zip(rows, got):
                r['pos'] = tuple(float(c) for c in g)
            adopt = False
        elif via == 'deepcopy':
            sub = copy.deepcopy(atoms)
            rows = m.select(range(m.n)); sel = list(range(m.n))
        else:
            subsys = copy.deepcopy(s)
            sub = subsys.atoms
            rows = m.select(range(m.n)); sel = list(range(m.n))
        require(isinstance(sub, self.am.Atoms), lambda: '%s: %s returned %r' % (self.where, what, type(sub)))
        check_atoms(sub, rows, schema, '%s: %s' % (self.where, what))
        if subsys is not None:
            require(subsys.natoms == len(rows) and list(subsys.symbols)[:len(m.symbols)] == m.symbols and subsys.pbc.tolist() == m.pbc,
                    lambda: '%s: %s: System symbols/pbc %r %r, model %r %r' % (self.where, what, subsys.symbols, subsys.pbc, m.symbols, m.pbc))
        # the operand is unchanged: verified by self.check() right after this step
        if copying:
            for key in schema:
                require(not np.shares_memory(sub.view[key], atoms.view[key]),
                        lambda: '%s: %s: property %r of the copy shares memory with the original' % (self.where, what, key))
        if adopt and rows:
            self.labels.add('adopt_sub')
            if copying:
                self.retire(what, atoms, m.rows, m.schema)
            m.rows = rows
            if subsys is not None:
                self.s = subsys
                self.adopt_masses(subsys, what)
            else:
                self.rewrap(sub)
            self.prev_natypes = m.natypes_atoms()
        elif copying:
            done = [scribble(sub.view[key]) for key in schema]
            if any(done):
                self.labels.add('probe_extract_copy')
            self.keep(what, sub)        # class A (as the caller left it)

    def adopt_masses(self, system, what):
        """masses of a System built by atoms_ix[...] / atoms_extend are not specified: any tuple of None/float that is long enough"""
        m = self.m
        m.symbols = list(system.symbols)
        ma = system.masses
        require(isinstance(ma, tuple) and all(x is None or isinstance(x, float) for x in ma),
                lambda: '%s: %s: masses %r' % (self.where, what, ma))
        m.masses = list(ma)
        self.na_hi = self.ns_hi = 0

    # extension --------------------------------------------------------------------------------
    def op_extend(self, op):
        m, s = self.m, self.s
        atoms = s.atoms
        n = m.n
        via = op['via']
        n_other = n if op['same'] else 1 + op['count'] % 4
        if n + n_other > NMAX:
            self.labels.add('skip_nmax')
            return
        scale = bool(op['scale']) and via == 'system' and op['what'] == 'atoms'
        vm = self.vmode(op, op['aslist']) if op['what'] != 'int' else None
        src = M.Src(op['vals'], tmax=op['tmax'], whole=whole_of(op['aslist']), mode=vm)
        if op['what'] == 'int':
            value = n_other
            orows = [{'atype': 1, 'pos': (0.0, 0.0, 0.0)} for _ in range(n_other)]
            oschema = OrderedDict([('atype', ('t', ())), ('pos', ('f', (3,)))])
            other = None
            self.labels.add('ext:int')
        else:
            names = [nm for j, nm in enumerate(POOLNAMES) if (op['pbits'] >> j) & 1]
            if op.get('eq'):
                # class G: exactly the property set of the object extended, in its order (1) or in the reversed order (2)
                names = [x for x in m.schema if x not in ('atype', 'pos')]
                self.labels.add('ext:same_order' if op['eq'] == 1 else 'ext:reversed_order')
            other, orows, oschema = self.build_atoms(n_other, names, src, op['aslist'], reverse=(op.get('eq') == 2))
            value = other
            mine, theirs = set(m.schema) - {'atype', 'pos'}, set(names)
            self.labels.add('ext:equal' if mine == theirs else 'ext:subset' if theirs < mine else
                            'ext:superset' if theirs > mine else 'ext:overlap' if mine & theirs else 'ext:disjoint')
        osnap = [dict(r) for r in orows]
        if scale:
            rel = [r['pos'] for r in orows]
            erows = [dict(r) for r in orows]
            for r, p in zip(erows, rel):
                r['pos'] = self.r2c(p)
        else:
            erows = orows
        nrows, nschema = m.extended(erows, oschema)
        what = '%s(%s%s)' % ('Atoms.extend' if via == 'atoms' else 'System.atoms_extend',
                             'int' if other is None else 'Atoms with %d atoms, props %r' % (n_other, list(oschema)),
                             ', scale=True' if scale else '')
        newsys = None
        syms = op['symbols'] if via == 'system' else None
        safecopy = bool(op['safecopy'])
        blocked = scale and n_other != n       # input class of the open finding KEY_SCALE
        # input class of the open finding KEY_WIDTH: a scalar string property that only the argument has, whose first
        # entry is shorter than a later one
        trunc = (other is not None and 's0' in oschema and 's0' not in m.schema
                 and len(orows[0]['s0']) < max(len(r['s0']) for r in orows))
        handed = {} if other is None else {'value': other}
        try:
            if via == 'atoms':
                new = self.guarded(lambda: atoms.extend(value), handed, what)
            else:
                kw = {}
                if syms is not None:
                    kw['symbols'] = list(syms)
                    handed['symbols'] = kw['symbols']
                try:
                    newsys = self.guarded(lambda: s.atoms_extend(value, scale=scale, safecopy=safecopy, **kw), handed, what)
                except ValueError as e:
                    if blocked and 'broadcast' in str(e):
                        raise Violation('%s: %s on a system of %d atoms raised ValueError(%s)' % (self.where, what, n, e))
                    raise
                require(isinstance(newsys, self.am.System), lambda: '%s: %s returned %r' % (self.where, what, type(newsys)))
                new = newsys.atoms
            require(isinstance(new, self.am.Atoms) and new is not atoms, lambda: '%s: %s did not return a new Atoms' % (self.where, what))
            if scale:
                # tolerance comparison of the unscaled new rows first, then exact comparison of everything
                require(new.natoms == n + n_other, lambda: '%s: %s: natoms %d, expected %d' % (self.where, what, new.natoms, n + n_other))
                self.sync_float3('pos', list(range(n, n + n_other)), [r['pos'] for r in nrows[n:]], what, atoms=new, rows=nrows,
                                 rel=rel if vm else None)
            check_atoms(new, nrows, nschema, '%s: %s' % (self.where, what))
            if other is not None and 's0' in oschema and 's0' not in m.schema and new.view['s0'].dtype.itemsize // 4 < 4:
                # footprint of the open finding KEY_WIDTH without immediate loss of data (every entry fits the width of the
                # first one): the history continues with the narrower stored width (later writes are cast to it, DESIGN 5)
                m.width['s0'] = new.view['s0'].dtype.itemsize // 4
                self.labels.add('narrowed_by_extend')
        except Violation as v:
            if trunc and v.key is None and "property 's0'" in v.detail:
                raise Violation(v.detail, key=KEY_WIDTH)
            if blocked and v.key is None:
                raise Violation(v.detail, key=KEY_SCALE)
            raise
        # operands unchanged (the System/Atoms extended is re-checked by self.check(); the argument here)
        # atoms_extend(safecopy=False) documents that objects may be shared with the input parameters: the argument is written to
        # afterwards (here and by the calls on other objects) only where everything is documented as copied
        free = via == 'atoms' or safecopy
        if other is not None:
            intok = afc(op['aslist']) == 5
            check_atoms(other, osnap, oschema, '%s: argument of %s after the call' % (self.where, what), intok=intok)
            if free and self.mutate_in(op, other):
                # class B: the caller overwrites every property of the Atoms it handed in; the result must not move
                check_atoms(new, nrows, nschema, '%s: result of %s after the caller overwrote the argument' % (self.where, what))
                self.labels.add('mut:in:atoms')
            else:
                self.retire('%s (the argument)' % what, other, osnap, oschema, intok=intok, free=free)
            if isinstance(handed.get('symbols'), list):
                self.mutate_in(op, handed['symbols'])
        if src.exps and max(src.exps) - min(src.exps) >= 27:
            self.labels.add('dec:8')
            if scale:
                self.labels.add('dec:8:scaled')
        check_atoms(atoms, m.rows, m.schema, '%s: operand of %s after the call' % (self.where, what))
        for key in m.schema:
            require(not np.shares_memory(new.view[key], atoms.view[key]),
                    lambda: '%s: %s: property %r of the result shares memory with the operand' % (self.where, what, key))
        self.retire(what, atoms, m.rows, m.schema, free=free)
        m.rows, m.schema = nrows, nschema
        if newsys is not None:
            require(newsys.pbc.tolist() == m.pbc, lambda: '%s: %s: pbc %r not copied over (%r)' % (self.where, what, newsys.pbc, m.pbc))
            require(np.array_equal(newsys.box.vects, self.V) and np.array_equal(newsys.box.origin, self.o),
                    lambda: '%s: %s: box not copied over' % (self.where, what))
            if safecopy:
                require(newsys.box is not s.box, lambda: '%s: %s: safecopy=True but the box object is shared' % (self.where, what))
            exps = list(syms) if syms is not None else list(m.symbols)
            got = list(newsys.symbols)
            require(got[:len(exps)] == exps and all(x is None for x in got[len(exps):]),
                    lambda: '%s: %s: symbols %r, expected %r (+ None padding)' % (self.where, what, got, exps))
            self.s = newsys
            self.adopt_masses(newsys, what)
            self.labels.add('ext:system')
        else:
            self.rewrap(new)
        self.ext_seen = True
        self.labels.add('extended')
        if scale:
            self.labels.update({'scaled_ext', 'nt'})
            if n_other == n:
                self.labels.add('scaled_ext_same_count')

    # Atoms-valued assignment --------------------------------------------------------------------
    def op_setitem(self, op):
        m, s = self.m, self.s
        atoms = s.atoms
        via = op['via']
        aid = bool(op.get('aid')) and via in ('prop', 'sysprop', 'sysprop_scaled')
        form, idx, sel = self.resolve(op['idx'], force_int=aid)
        af = op['aslist']
        scaled = via == 'sysprop_scaled'
        # the scaled route unscales the positions of the value in place: in a narrow dtype of the value only plain values fit
        vm = self.vmode(op, af) if not (scaled and afc(af) == 7) else None
        src = M.Src(op['vals'], tmax=op['tmax'], whole=whole_of(af), mode=vm)
        count = 1 if (form == 'int' or op['vmode'] == 'one' or not sel) else len(sel)
        names = [x for x in m.schema if x not in ('atype', 'pos')]
        if scaled and afc(af) == 3:
            af = 0      # this route unscales the positions of the value in place (tolerated before: the value is not re-checked)
        value, vrows, vschema = self.build_atoms(count, names, src, af, reverse=bool(op['reverse']))
        vsnap = [dict(r) for r in vrows]
        if scaled:
            rel = [r['pos'] for r in vrows]
            for r in vrows:
                r['pos'] = self.r2c(r['pos'])
        what = '%s assignment of %d atom(s) at index %r' % (via, count, idx)
        sl = slice(None) if form == 'all' else idx
        sysval = None
        if via == 'ix_system':
            box2 = s.box
            if op.get('dbox') is not None:
                # class E: the only tolerance in the code under C06 - atoms_ix[...] = System compares the two boxes with
                # numpy.allclose and WARNS when they differ; the assignment is the same on either side of that threshold
                f = 1.0 + 2.0 ** -(8 + op['dbox'] % 36)
                box2 = self.am.Box(vects=self.V * f, origin=self.o.copy())
                self.labels.add('near:box')
            sysval = self.am.System(atoms=value, box=box2)

        def put():
            if via == 'atoms':
                atoms[sl] = value
            elif via == 'ix_atoms':
                s.atoms_ix[sl] = value
            elif via == 'ix_system':
                s.atoms_ix[sl] = sysval
            elif aid:
                # class H: the a_id spelling of an integer index together with an Atoms value (and scale)
                if via == 'prop':
                    atoms.prop(a_id=idx, value=value)
                else:
                    s.atoms_prop(a_id=idx, value=value, scale=scaled)
                self.labels.add('opt:aid_atoms_set')
                if scaled:
                    self.labels.add('opt:aid_atoms_set_scaled')
            elif via == 'prop':
                atoms.prop(index=idx, value=value) if form != 'all' else atoms.prop(value=value)
            elif via == 'sysprop':
                s.atoms_prop(index=idx, value=value) if form != 'all' else s.atoms_prop(value=value)
            else:
                s.atoms_prop(index=idx, value=value, scale=True) if form != 'all' else s.atoms_prop(value=value, scale=True)
        # (the scaled route is tolerated to unscale the positions of the value in place)
        self.guarded(put, {'value': value, 'index': sl}, what, skip=('pos',) if scaled else ())
        for name in m.schema:
            if scaled and name == 'pos':
                continue
            m.set_rows(name, sel, [r[name] for r in vrows])
        if scaled:
            exp = [r['pos'] for r in vrows]
            if len(exp) == 1 and len(sel) != 1:
                exp = exp * len(sel)
            last = {}
            for i, e in zip(sel, exp):
                last[i] = e
            intpos = value.view['pos'].dtype.kind in 'iub'      # input class of the finding KEY_INTPOS
            try:
                if vm:
                    rels = rel * len(sel) if (len(rel) == 1 and len(sel) != 1) else rel
                    lastrel = {}
                    for i, r in zip(sel, rels):
                        lastrel[i] = r
                self.sync_float3('pos', list(last), [last[i] for i in last], what, rel=[lastrel[i] for i in last] if vm else None)
            except Violation as v:
                if intpos and v.key is None:
                    raise Violation('positions of the value given as whole numbers are stored with dtype %s: %s' % (value.view['pos'].dtype, v.detail),
                                    key=KEY_INTPOS)
                raise
            self.labels.add('scaled_atoms_set')
            if afc(op['aslist']) == 5:
                # the value's whole-number positions were handed to Atoms() integer-typed (they have to be stored as floats)
                self.labels.add('scaled_atoms_set_inttyped')
                if INT_VARIANTS[afv(op['aslist'])] not in ('int64', 'pyint'):
                    self.labels.add('scaled_atoms_set_int_not64')
            if intpos:
                self.labels.add('scaled_atoms_set_intpos')
        else:
            check_atoms(value, vsnap, vschema, '%s: value of %s after the call' % (self.where, what), intok=(afc(op['aslist']) == 5))
        if src.exps and max(src.exps) - min(src.exps) >= 27:
            self.labels.add('dec:8')
            if scaled:
                self.labels.add('dec:8:scaled')
        self.indexed_write()
        if self.mutate_in(op, value):
            self.labels.add('mut:in:atoms')     # class B: assignment copies, so the object must not follow (judged right after)

    def op_setself(self, op):
        m, s = self.m, self.s
        atoms = s.atoms
        n = m.n
        if op.get('perm') is not None:
            self.op_setself(dict(op, perm=None))        # (the overlapping-slice assignment first, as without this option)
            # class G: the object assigned to ITSELF through an exactly structured selection of all its atoms (identity, mirror
            # image, cyclic shift, swapped halves, ... written as list / slice / mask): numpy copies an overlapping right-hand
            # side first, so atom sel[i] receives the old atom i
            form, idx, sel = self.resolve(dict(op['perm'], k='perm'))
            if len(sel) != n:           # the all-False mask: nothing selected, a single-atom value broadcasts to nothing
                value = atoms[0]
                snap = []
            else:
                value = atoms if op['via'] != 'ix' else s
                snap = m.select(range(n))
            if op['via'] == 'atoms':
                atoms[idx] = value
            elif op['via'] == 'ix':
                s.atoms_ix[idx] = value
            else:
                atoms.prop(index=idx, value=value)
            for name in m.schema:
                m.set_rows(name, sel, [r[name] for r in snap] if snap else [m.rows[0][name]])
            self.labels.add('selfset_perm')
            if sel != list(range(n)) and len(sel) == n:
                self.labels.add('selfset_perm_moves')
            self.indexed_write()
            return
        k = 1 + op['k'] % n
        a = op['a'] % (n - k + 1)
        b = op['b'] % (n - k + 1)
        snap = m.select(range(b, b + k))
        if op['via'] == 'atoms':
            atoms[a:a + k] = atoms[b:b + k]
        elif op['via'] == 'ix':
            s.atoms_ix[a:a + k] = s.atoms_ix[b:b + k]
        else:
            atoms.prop(index=slice(a, a + k), value=atoms[b:b + k])
        for name in m.schema:
            m.set_rows(name, list(range(a, a + k)), [r[name] for r in snap])
        if a != b and abs(a - b) < k:
            self.labels.add('selfset_overlap')
        self.indexed_write()

    # per-type assignment --------------------------------------------------------------------------
    def op_ptype(self, op):
        m, s = self.m, self.s
        atoms = s.atoms
        name = self.anyname(op['name'], atype=False)
        kind, tshape = M.KINDS[name]
        new = name not in m.schema
        aslist = op['aslist']
        src = M.Src(op['vals'], whole=whole_of(aslist), mode=self.vmode(op, aslist))
        na = m.natypes_atoms()
        mode = op['mode']
        if new and afc(aslist) in (5, 7):
            aslist = 0          # see the table of forms
        if mode == 'all':
            vals = src.many(kind, tshape, na)
            arg = self.to_arg(vals, kind, tshape, aslist)
            self.guarded(lambda: atoms.prop_atype(name, arg), {'value': arg}, 'prop_atype(%r, value)' % name)
            m.set_all(name, [vals[r['atype'] - 1] for r in m.rows])
            if src.exps and max(src.exps) - min(src.exps) >= 27:
                self.labels.add('dec:8')
            self.mutate_in(op, arg)
        elif mode == 'short':
            vals = src.many(kind, tshape, na - 1)
            self.refusal(lambda: atoms.prop_atype(name, self.to_arg(vals, kind, tshape, aslist)), ValueError,
                         'length of value less than natypes', 'prop_atype with %d values for %d types' % (na - 1, na))
            return
        elif mode == 'absent':
            t = na + 1 + op['t'] % 3
            v = src.one(kind, tshape)
            self.refusal(lambda: atoms.prop_atype(name, self.one_arg(v, kind, tshape, aslist, new=new), atype=t), ValueError,
                         'atype not found', 'prop_atype(atype=%d) with %d types' % (t, na))
            return
        else:
            if new and tshape != ():
                self.labels.add('skip_borderline_vector_newkey')    # DESIGN section 5, borderline: not in the domain
                return
            t = 1 + op['t'] % na
            if op['nptype']:
                t = np.int64(t)
            v = src.one(kind, tshape)
            arg = self.one_arg(v, kind, tshape, aslist, new=new)
            self.guarded(lambda: atoms.prop_atype(name, arg, atype=t), {'value': arg}, 'prop_atype(%r, value, atype)' % name)
            self.mutate_in(op, arg)
            if new:
                m.set_all(name, [M.default_value(kind, tshape)] * m.n)
                self.labels.add('ptype_one_newkey')
            m.set_rows(name, [i for i, r in enumerate(m.rows) if r['atype'] == int(t)], [v])
            self.indexed_write()
        self.labels.add('ptype:' + mode)
        if self.growth:
            self.labels.update({'ptype_after_growth', 'nt'})

    # per-type lists, pbc ----------------------------------------------------------------------------
    def op_symbols(self, op):
        m, s = self.m, self.s
        syms = op['syms']
        if isinstance(syms, str):
            s.symbols = syms
            m.symbols = [syms]
        else:
            arg = tuple(syms) if op['astuple'] else list(syms)
            self.guarded(lambda: setattr(s, 'symbols', arg), {'symbols': arg}, 'symbols setter')
            m.symbols = list(syms)
            self.mutate_in(op, arg)         # class B: the caller goes on using its list
        self.na_hi = 0      # the setter pads to the number of types now; earlier numbers of types no longer matter (ns_hi keeps them)

    def op_masses(self, op):
        m, s = self.m, self.s
        vals = op['masses']
        lo, hi = self.sym_bounds()
        if lo != hi:
            # whether "more masses than atom types" holds depends on the stored length of symbols, which is only known
            # within bounds after steps without reads: read it first
            self.read('sym')
            self.labels.add('masses_settled_first')
        nsys = m.natypes_system()
        if isinstance(vals, list):
            if op['fit']:
                vals = vals[:nsys]
            toolong = len(vals) > nsys
            arg = tuple(vals) if op['astuple'] else list(vals)
            newm = [None if x is None else float(x) for x in vals]
        else:
            toolong = False
            arg = vals
            newm = [float(vals)]
        if toolong:
            # the message states the condition, so it may only be raised when the condition holds
            try:
                self.guarded(lambda: setattr(s, 'masses', arg), {'masses': arg}, 'masses setter')
            except ValueError as e:
                require('More masses than atom types' in str(e), lambda: '%s: masses setter raised ValueError(%s)' % (self.where, e))
                self.labels.add('refusal')
                return
            m.masses = newm
            self.ns_hi = 0
            self.labels.add('masses_toolong_accepted')
            return
        self.guarded(lambda: setattr(s, 'masses', arg), {'masses': arg}, 'masses setter')
        m.masses = newm
        self.ns_hi = 0
        self.mutate_in(op, arg)

    def op_pbc(self, op):
        p = [bool(x) for x in op['p']]
        form = op['form']
        arg = list(p) if form == 'list' else tuple(p) if form == 'tuple' else np.array(p)
        self.guarded(lambda: setattr(self.s, 'pbc', arg), {'pbc': arg}, 'pbc setter')
        self.m.pbc = p
        if form == 'list':
            self.mutate_in(op, arg)     # (an ndarray handed in is kept as it is by numpy.asarray: not overwritten here)

    def op_df(self, op):
        s = self.s
        if op['via'] == 'atoms':
            self.check_df(s.atoms.df(), False, 'Atoms.df()')
        elif op['via'] == 'system':
            self.check_df(s.atoms_df(), False, 'System.atoms_df()')
        else:
            self.check_df(s.atoms_df(scale=True), True, 'System.atoms_df(scale=True)')

    # calls on ANOTHER object (classes A and B) -----------------------------------------------------------
    def op_side(self, op):
        """a call on an object other than the one under test - an operand / argument of an earlier operation, or a fresh
        independent object (one-atom objects built from the constructor defaults included): reads are judged against that
        object's own rows, writes go into its rows; the object under test and everything in the ledger must not move
        (judged by the checks that follow every step)"""
        am = self.am
        src = M.Src(op['vals'], tmax=op['tmax'])
        cands = [e for e in self.retired if not e[4]]
        if op['fresh'] or not cands:
            k = 1 + op['count'] % 3
            if op['fresh'] == 2 or not op['fresh']:
                obj = am.Atoms(natoms=k) if op['count'] % 2 else am.Atoms()
                k = obj.natoms
                rows = [{'atype': 1, 'pos': (0.0, 0.0, 0.0)} for _ in range(k)]
                schema = OrderedDict([('atype', ('t', ())), ('pos', ('f', (3,)))])
                self.labels.add('side:defaults')
            else:
                names = [nm for j, nm in enumerate(POOLNAMES) if (op['pbits'] >> j) & 1]
                obj, rows, schema = self.build_atoms(k, names, src, 0)
            self.retire('independent object', obj, rows, schema)
            entry = self.retired[-1]
            self.labels.add('side:fresh')
        else:
            entry = cands[op['k'] % len(cands)]
            self.labels.add('side:operand')
        what, obj, rows, schema, intok, free = entry
        n = len(rows)
        name = list(schema)[op['name'] % len(schema)]
        kind, tshape = schema[name]
        act = op['act'] % 5
        if act in (1, 2) and (not free or kind == 's' or n == 0 or not obj.view[name].flags.writeable):
            act = 0         # (an argument the harness built from a read-only array rightly refuses writes)
        w = '%s: call on another object (%s)' % (self.where, what)
        values = v = None
        if act == 1:
            values = src.many(kind, tshape, n)
        elif act == 2:
            v = src.one(kind, tshape)
        if act in (1, 2):
            # the other object may STORE the column in a narrow / unsigned / byte-swapped dtype (an argument handed over in value
            # form 7, an earlier narrow-storage object under test): a value that dtype cannot hold is not written (numpy would
            # wrap or round it, which is numpy's documented cast and nothing the code under test decides) - a read is made instead
            drawn = M.to_array(values if act == 1 else [v], kind, tshape)
            held = drawn.astype(obj.view[name].dtype)
            if not np.array_equal(held.astype(drawn.dtype), drawn):
                act = 0
                self.labels.add('side:unfit_for_storage')
        if act == 0:
            got = obj.prop(key=name)
            exp = M.to_array([r[name] for r in rows], kind, tshape)
            require(isinstance(got, np.ndarray) and got.shape == exp.shape and np.array_equal(got, exp),
                    lambda: '%s: prop(%r) = %r, its rows say %r' % (w, name, np.asarray(got).tolist(), exp.tolist()))
            scribble(got)
            self.keep('prop(%r) of another object' % name, got)
        elif act == 1:
            arg = self.to_arg(values, kind, tshape, 0)
            if op['count'] % 2:
                obj.prop(key=name, value=arg)
            else:
                setattr(obj, name, arg)
            for r, v in zip(rows, values):
                r[name] = v
            self.rekeep(obj)
            self.labels.add('side:write')
        elif act == 2:
            i = op['k'] % n
            obj.prop(key=name, index=i, value=self.one_arg(v, kind, tshape, 0))
            rows[i][name] = v
            self.rekeep(obj)
            self.labels.add('side:write')
        elif act == 3:
            k = 1 + op['count'] % 2
            new = obj.extend(k)
            exp = [dict(r) for r in rows] + [dict((key, 1 if key == 'atype' else M.default_value(*schema[key])) for key in schema) for _ in range(k)]
            check_atoms(new, exp, schema, w + ': extend(%d)' % k, intok=intok)
            self.keep('extend(%d) of another object' % k, new)
        else:
            sub = copy.deepcopy(obj) if op['count'] % 2 else obj.prop(index=slice(None))
            check_atoms(sub, rows, schema, w + ': copy', intok=intok)
            self.keep('copy of another object', sub)
        check_atoms(obj, rows, schema, w + ': the object itself afterwards', intok=intok)
        self.side_step = self.stepno

    # documented refusals ------------------------------------------------------------------------------
    def op_refuse(self, op):
        m, s, am = self.m, self.s, self.am
        atoms = s.atoms
        w = op['which']
        n = m.n
        src = M.Src(op['vals'])
        self.labels.add('refuse:' + w)
        if w == 'badlen':
            name = self.anyname(op['name'])
            kind, tshape = M.KINDS[name]
            L = n + 1 + op['a'] % 2 if (op['a'] % 3 or n <= 2) else n - 1     # never 1, never natoms
            if L in (1, n):
                L = n + 1
            arg = self.to_arg(src.many(kind, tshape, L), kind, tshape, op['aslist'])
            route = op['a'] % 3
            fn = ((lambda: setattr(atoms, name, arg)) if route == 0 else (lambda: atoms.view.__setitem__(name, arg)) if route == 1
                  else (lambda: atoms.prop(key=name, value=arg)))
            self.refusal(fn, ValueError, 'First dimension of value must be 1 or natoms', 'set %r with leading length %d (natoms %d)' % (name, L, n))
        elif w == 'atype0':
            vals = [1] * n
            vals[op['a'] % n] = 0 if op['a'] % 2 else -1
            if afc(op['aslist']) in (5, 7) or (op['a'] // 2) % 2:
                # class C: the offending values in every integer dtype - a zero in an unsigned one included (variants of form 5;
                # form 7: big-endian; otherwise the dtype is taken from the op's numbers)
                if afc(op['aslist']) == 5:
                    vals = int_typed(np.array(vals, dtype=np.int64), 't', afv(op['aslist']), self.labels)
                elif afc(op['aslist']) == 7:
                    vals = narrow_typed(np.array(vals, dtype=np.int64), 't', afv(op['aslist']), self.labels)
                else:
                    names = ['uint8', 'int8', 'uint16', 'uint64', 'uint32'] if min(vals) >= 0 else ['int8', 'int16', 'int32']
                    vals = np.array(vals, dtype=names[op['name'] % len(names)])
                if isinstance(vals, np.ndarray):
                    self.labels.add('refuse:atype0:typed')
                    if vals.dtype.kind == 'u':
                        self.labels.add('refuse:atype0:unsigned')
            self.refusal(lambda: setattr(atoms, 'atype', vals), ValueError, 'atype values must be >= 1', 'atype = %r' % (vals,))
        elif w == 'aid_index':
            self.refusal(lambda: atoms.prop(key='pos', index=0, a_id=0), ValueError, 'a_id and index cannot both be given', 'prop(index, a_id)')
        elif w == 'aid_index_scaled':
            self.refusal(lambda: s.atoms_prop(key='pos', index=0, a_id=0, scale=True), ValueError, 'a_id and index cannot both be given', 'atoms_prop(index, a_id, scale=True)')
        elif w == 'value_not_atoms':
            self.refusal(lambda: atoms.prop(index=op['a'] % n, value=[1.0, 2.0, 3.0]), TypeError, 'value must be instance of atomman.Atoms', 'prop(index, value=list)')
        elif w == 'value_not_atoms_scaled':
            self.refusal(lambda: s.atoms_prop(value=[1.0, 2.0, 3.0], scale=True), TypeError, 'value must be instance of atomman.Atoms', 'atoms_prop(value=list, scale=True)')
        elif w == 'mismatch':
            names = [x for x in m.schema if x not in ('atype', 'pos')]
            if names and op['a'] % 2:
                names = names[:-1]
            else:
                names = names + [[p for p in POOLNAMES if p not in m.schema] or ['extra']][0][:1]
            if 'extra' in names:
                return
            value, _, _ = self.build_atoms(1, names, src, True)
            i = op['a'] % n
            fn = ((lambda: atoms.__setitem__(i, value)) if op['a'] % 3 == 0 else (lambda: s.atoms_ix.__setitem__(i, value))
                  if op['a'] % 3 == 1 else (lambda: atoms.prop(index=i, value=value)))
            self.refusal(fn, ValueError, 'Can only set Atoms with matching properties', 'Atoms assignment with property set %r' % names)
        elif w == 'ix_not_atoms':
            self.refusal(lambda: s.atoms_ix.__setitem__(op['a'] % n, [1, 2, 3]), ValueError, 'Can only set using Atoms or System objects', 'atoms_ix[i] = list')
        elif w == 'extend_type':
            self.refusal(lambda: atoms.extend(1.5), TypeError, 'can only add Atoms or an int', 'extend(1.5)')
        elif w == 'extend_int_scale':
            self.refusal(lambda: s.atoms_extend(1 + op['a'] % 3, scale=True), ValueError, 'scale can only be True for Atoms values', 'atoms_extend(int, scale=True)')
        elif w == 'scale_type':
            self.refusal(lambda: s.atoms_prop(key='pos', scale=1), TypeError, 'Invalid scale type', 'atoms_prop(scale=1)')
        else:
            raise ValueError(w)


def oracle_history(case):
    import atomman as am
    run = Run(am, case['init'])
    for k, op in enumerate(case['ops']):
        run.step(k, op)
    run.finish(rd=case.get('fin'))
    labels = run.labels
    nops = len(case['ops'])
    labels.add('len>=10' if nops >= 10 else 'len<10')
    if nops >= 20:
        labels.add('len>=20')
    return labels


# ----------------------------------------------------------------------------- strategies (built once)

I = st.integers
B = st.booleans()
VALS = st.lists(I(-64, 64), min_size=1, max_size=8)
NAME = I(0, 23)
TMAX = st.sampled_from([2, 3, 4, 6])
SL = st.one_of(st.none(), I(-8, 8))
STEP = st.sampled_from([None, None, 1, 2, 3, -1, -2])
FD = st.fixed_dictionaries
J = st.just
IDX1 = st.one_of(
    FD({'k': J('int'), 'a': I(0, 11), 'np': B}),
    FD({'k': J('neg'), 'a': I(0, 11), 'np': B}),
    FD({'k': J('slice'), 'a': SL, 'b': SL, 'c': STEP}),
    FD({'k': J('list'), 'l': st.lists(I(-12, 11), max_size=5), 'np': B}),
    FD({'k': J('mask'), 'a': I(0, 4095), 'np': B}),
)
# class G: exactly structured selections of all atoms (identity, mirror image, cyclic shift, negative spelling, affine
# permutation, swapped halves; as list / slice / mask)
PERM = FD({'k': J('perm'), 'p': I(0, 5), 'f': st.sampled_from(['list', 'list', 'slice', 'mask']), 'sh': I(0, 11), 'np': B})
IDX = st.one_of(IDX1, IDX1, IDX1, IDX1, IDX1, PERM, J({'k': 'all'}))
MUT = st.sampled_from([0, 0, 1, 2])                     # class B: the caller overwrites (1) and re-uses (2) what it handed in
VM = st.sampled_from([None, None, None, 'tiny', 'dec'])  # classes E / F: near-threshold values, many decades in one argument
VMODE = st.sampled_from(['one', 'many', 'many'])
SYMS = st.lists(st.sampled_from(['Al', 'Cu', 'Fe', 'O', 'H', 'Ni']), max_size=5)
MASSV = st.one_of(st.none(), I(1, 240).map(lambda k: k / 4.0), I(1, 60))
MASSES = st.lists(MASSV, max_size=5)
# forms of a value argument (table above to_arg): two in ten integer-typed, spread over the ten variants of that form
# (form 7, narrow / byte-swapped dtypes of the value's own kind: 8 in 100, taken from the share of the plain forms)
AF = st.sampled_from([f for f in (False, True, False, True, 2, 3, 4, 6) for _ in range(9)] + [5 + 10 * k for k in range(len(INT_VARIANTS))] * 2
                     + [7 + 10 * k for k in range(len(FLT_VARIANTS))] * 2)
# order of the reads after a step (number of a permutation of READS; 0 = the original order) and per-type reads left out
RD = FD({'o': st.one_of(J(0), I(0, NPERM - 1), I(0, NPERM - 1)), 'skip': st.one_of(J(0), J(0), J(0), I(0, 63), J(63), J(63))})

OPS = {
    'set': FD({'op': J('set'), 'via': st.sampled_from(['attr', 'view', 'prop', 'sysprop']), 'name': NAME,
               'mode': st.sampled_from(['scalar', 'len1', 'full', 'full']), 'vals': VALS, 'aslist': AF, 'tmax': TMAX, 'mut': MUT, 'vm': VM}),
    'setidx': FD({'op': J('setidx'), 'via': st.sampled_from(['prop', 'prop', 'sysprop', 'a_id', 'view']), 'name': NAME, 'idx': IDX,
                  'vmode': VMODE, 'vals': VALS, 'aslist': AF, 'tmax': TMAX, 'mut': MUT, 'vm': VM}),
    'scaled_set': FD({'op': J('scaled_set'), 'name': I(0, 1), 'idx': IDX, 'vmode': VMODE, 'vals': VALS, 'aslist': AF, 'mut': MUT, 'vm': VM,
                      'aid': st.sampled_from([False, False, False, True])}),
    'get': FD({'op': J('get'), 'via': st.sampled_from(['prop', 'prop', 'sysprop', 'a_id', 'scaled']), 'name': NAME, 'idx': IDX}),
    'getatoms': FD({'op': J('getatoms'), 'via': st.sampled_from(['getitem', 'getitem', 'atoms_ix', 'atoms_ix', 'prop', 'prop', 'a_id', 'sysprop',
                                                                 'scaled', 'deepcopy', 'deepcopy_sys']),
                    'idx': IDX, 'adopt': st.sampled_from([False, False, True])}),
    'extend': FD({'op': J('extend'), 'via': st.sampled_from(['atoms', 'system']), 'what': st.sampled_from(['int', 'atoms', 'atoms']),
                  'count': I(0, 3), 'same': st.sampled_from([False, False, True]), 'pbits': I(0, 1023), 'vals': VALS, 'aslist': AF,
                  'tmax': TMAX, 'scale': st.sampled_from([False, False, False, True]), 'symbols': st.one_of(st.none(), st.none(), SYMS),
                  'safecopy': B, 'mut': MUT, 'vm': VM, 'eq': st.sampled_from([0, 0, 0, 0, 0, 0, 0, 0, 1, 2])}),
    'setitem': FD({'op': J('setitem'), 'via': st.sampled_from(['atoms', 'atoms', 'ix_atoms', 'ix_system', 'prop', 'sysprop', 'sysprop_scaled']),
                   'idx': IDX, 'vmode': VMODE, 'vals': VALS, 'aslist': AF, 'tmax': TMAX, 'reverse': B, 'mut': MUT, 'vm': VM,
                   'aid': st.sampled_from([False, False, False, True]), 'dbox': st.one_of(st.none(), I(0, 35))}),
    'setself': FD({'op': J('setself'), 'via': st.sampled_from(['atoms', 'ix', 'prop']), 'a': I(0, 11), 'b': I(0, 11), 'k': I(0, 11),
                   'perm': st.one_of(st.none(), PERM)}),
    'ptype': FD({'op': J('ptype'), 'name': NAME, 'mode': st.sampled_from(['all', 'all', 'one', 'one', 'one', 'short', 'absent']),
                 't': I(0, 11), 'vals': VALS, 'aslist': AF, 'nptype': B, 'mut': MUT, 'vm': VM}),
    'symbols': FD({'op': J('symbols'), 'syms': st.one_of(SYMS, SYMS, st.sampled_from(['Al', 'Cu'])), 'astuple': B, 'mut': MUT}),
    'masses': FD({'op': J('masses'), 'masses': st.one_of(MASSES, MASSES, I(1, 240).map(lambda k: k / 4.0)), 'fit': st.sampled_from([True, True, False]),
                  'astuple': B, 'mut': MUT}),
    'pbc': FD({'op': J('pbc'), 'p': st.lists(B, min_size=3, max_size=3), 'form': st.sampled_from(['list', 'tuple', 'array']), 'mut': MUT}),

    'df': FD({'op': J('df'), 'via': st.sampled_from(['atoms', 'system', 'scaled'])}),
    'refuse': FD({'op': J('refuse'), 'which': st.sampled_from(['badlen', 'badlen', 'badlen', 'atype0', 'atype0', 'atype0', 'aid_index', 'aid_index_scaled',
                                                               'value_not_atoms', 'value_not_atoms_scaled', 'mismatch', 'mismatch', 'ix_not_atoms',
                                                               'extend_type', 'extend_int_scale', 'scale_type']),
                  'name': NAME, 'a': I(0, 11), 'vals': VALS, 'aslist': AF}),
}
# classes A / B: a call on another object (operand / argument of an earlier operation, or a fresh independent one); it rides on
# one step in seven of any kind, after that step's operation, so that the mix of operations is what it was
SIDE = FD({'op': J('side'), 'fresh': st.sampled_from([0, 0, 0, 1, 2]), 'k': I(0, 11), 'count': I(0, 5), 'pbits': I(0, 1023), 'name': NAME,
           'act': I(0, 4), 'vals': VALS, 'tmax': TMAX})
SIDE_OR_NOT = st.one_of(*([st.none()] * 6 + [SIDE]))
WEIGHTS = {'set': 4, 'setidx': 5, 'scaled_set': 2, 'get': 3, 'getatoms': 4, 'extend': 4, 'setitem': 4, 'setself': 2, 'ptype': 4,
           'symbols': 1, 'masses': 1, 'pbc': 1, 'df': 1, 'refuse': 2}
OP = st.one_of(*[st.tuples(OPS[k], RD, SIDE_OR_NOT).map(lambda t: dict(t[0], rd=t[1], side=t[2])) for k, w in WEIGHTS.items() for _ in range(w)])
INIT = FD({'n': I(0, 5), 'ctor': st.sampled_from(['natoms', 'bcast', 'lists', 'lists', 'arrays', 'arrays', 'prop']), 'props': I(0, 1023),
           'vals': VALS, 'box': I(0, 3), 'pbc': st.lists(B, min_size=3, max_size=3), 'scale': st.sampled_from([False, False, True]),
           'symbols': st.one_of(st.none(), SYMS, st.sampled_from(['Al', 'Cu'])), 'masses': st.one_of(st.none(), MASSES), 'safecopy': B,
           'af': st.sampled_from([None, None, None, 2, 4, 6]), 'rd': RD, 'sd': st.sampled_from([0, 0, 0, 0, 1, 2, 3, 4, 5]), 'mut': B})
HISTORY = FD({'init': INIT, 'fin': RD, 'ops': st.one_of(st.lists(OP, min_size=1, max_size=10), st.lists(OP, min_size=10, max_size=30), st.lists(OP, min_size=15, max_size=30))})


def history_cases():
    return HISTORY


# ----------------------------------------------------------------------------- class H: enumerated option combinations
# The history clause SAMPLES the options of every entry point; here they are ENUMERATED, through the same interpreter and the
# same oracles: (1) every combination of the options of one call (selector spelling x route x value form x scale x a_id x adopt ...
# for prop / atoms_prop / __getitem__ / __setitem__ / atoms_ix, value kind x scale x symbols x safecopy x equal count x property
# order for extend / atoms_extend, constructor x scale x safecopy x symbols x masses x storage dtypes for the System), and
# (2) every ORDERED pair of a fixed alphabet of operations that touch the same state (per-atom arrays, number of atom types,
# symbols / masses, the object identity after extend / extraction), thorough tier: also every ordered triple of the operations
# that touch the per-type state, on two different initial objects.
RD0 = {'o': 0, 'skip': 0}
RDQ = {'o': 0, 'skip': 63}
CANON_INIT = [
    {'n': 2, 'ctor': 'arrays', 'props': 27, 'vals': [3, -5, 17, 2], 'box': 2, 'pbc': [True, True, False], 'scale': False,
     'symbols': ['Al', 'Cu'], 'masses': None, 'safecopy': False, 'af': None, 'rd': RD0, 'sd': 0, 'mut': True},
    {'n': 0, 'ctor': 'natoms', 'props': 0, 'vals': [1], 'box': 1, 'pbc': [False, True, True], 'scale': True,
     'symbols': None, 'masses': [27.0], 'safecopy': True, 'af': None, 'rd': RDQ, 'sd': 0, 'mut': False},
]
CANON_IDX = [{'k': 'all'}, {'k': 'int', 'a': 1, 'np': False}, {'k': 'neg', 'a': 0, 'np': True}, {'k': 'slice', 'a': None, 'b': 2, 'c': None},
             {'k': 'list', 'l': [2, 0, 2], 'np': False}, {'k': 'mask', 'a': 5, 'np': True}, {'k': 'perm', 'p': 1, 'f': 'list', 'sh': 0, 'np': False}]


def _op(kind, **kw):
    base = {
        'set': {'via': 'attr', 'name': 3, 'mode': 'full', 'vals': [5, -9, 2], 'aslist': 0, 'tmax': 3, 'mut': 0, 'vm': None},
        'setidx': {'via': 'prop', 'name': 3, 'idx': CANON_IDX[1], 'vmode': 'many', 'vals': [7, 1, -4], 'aslist': 0, 'tmax': 3, 'mut': 0, 'vm': None},
        'scaled_set': {'name': 0, 'idx': CANON_IDX[0], 'vmode': 'many', 'vals': [2, -3, 5, 1], 'aslist': 0, 'mut': 0, 'vm': None, 'aid': False},
        'get': {'via': 'prop', 'name': 1, 'idx': CANON_IDX[0]},
        'getatoms': {'via': 'getitem', 'idx': CANON_IDX[3], 'adopt': False},
        'extend': {'via': 'atoms', 'what': 'atoms', 'count': 1, 'same': False, 'pbits': 3, 'vals': [4, -1, 6], 'aslist': 0, 'tmax': 3,
                   'scale': False, 'symbols': None, 'safecopy': False, 'mut': 0, 'vm': None, 'eq': 0},
        'setitem': {'via': 'atoms', 'idx': CANON_IDX[1], 'vmode': 'many', 'vals': [-2, 8, 3], 'aslist': 0, 'tmax': 3, 'reverse': False,
                    'mut': 0, 'vm': None, 'aid': False, 'dbox': None},
        'setself': {'via': 'atoms', 'a': 0, 'b': 1, 'k': 1, 'perm': None},
        'ptype': {'name': 1, 'mode': 'all', 't': 0, 'vals': [9, -6, 4], 'aslist': 0, 'nptype': False, 'mut': 0, 'vm': None},
        'symbols': {'syms': ['Fe', 'O', 'H'], 'astuple': False, 'mut': 0},
        'masses': {'masses': [56, None], 'fit': True, 'astuple': False, 'mut': 0},
        'pbc': {'p': [False, True, False], 'form': 'list', 'mut': 1},
        'df': {'via': 'scaled'},
        'side': {'fresh': 2, 'k': 0, 'count': 0, 'pbits': 3, 'name': 1, 'act': 1, 'vals': [3, 4], 'tmax': 2},
        'refuse': {'which': 'mismatch', 'name': 0, 'a': 1, 'vals': [1], 'aslist': 0},
    }[kind]
    rd = kw.pop('rd', RD0)
    return dict(base, op=kind, rd=rd, **kw)


def _alphabet():
    """operations touching the same state, one or a few per entry point and route"""
    return [
        _op('set'), _op('set', via='view', name=4, mode='scalar'), _op('set', via='prop', name=0, tmax=4, mut=2),
        _op('set', via='sysprop', name=1, mode='len1', vm='tiny'), _op('set', via='attr', name=0, tmax=6, rd=RDQ),
        _op('setidx'), _op('setidx', via='sysprop', name=6, idx=CANON_IDX[4], vm='dec'), _op('setidx', via='a_id', name=0, tmax=4, vmode='one'),
        _op('setidx', via='view', name=2, idx=CANON_IDX[5], mut=2),
        _op('scaled_set'), _op('scaled_set', idx=CANON_IDX[1], aid=True, vmode='one'), _op('scaled_set', name=1, idx=CANON_IDX[3], vmode='one', vm='dec'),
        _op('get'), _op('get', via='a_id', idx=CANON_IDX[1]), _op('get', via='scaled', idx=CANON_IDX[4]), _op('get', via='sysprop', idx=CANON_IDX[2], name=0),
        _op('getatoms', adopt=True), _op('getatoms', via='atoms_ix', idx=CANON_IDX[1], adopt=True), _op('getatoms', via='prop', idx=CANON_IDX[4]),
        _op('getatoms', via='scaled'), _op('getatoms', via='deepcopy_sys', adopt=True),
        _op('extend', what='int'), _op('extend', via='system', scale=True, symbols=['Ni', 'Al', 'Cu', 'H'], safecopy=True, mut=1),
        _op('extend', pbits=1023, mut=1), _op('extend', via='system', eq=2, same=True, scale=True),
        _op('setitem'), _op('setitem', via='ix_system', idx=CANON_IDX[3], dbox=20, mut=1), _op('setitem', via='sysprop_scaled', aid=True),
        _op('setitem', via='prop', idx=CANON_IDX[4], vmode='one', reverse=True, tmax=6),
        _op('setself'), _op('setself', via='ix', perm={'p': 1, 'f': 'slice', 'sh': 0, 'np': False}),
        _op('ptype', name=9), _op('ptype', mode='one', name=3, t=1, nptype=True),
        _op('symbols'), _op('symbols', syms='Cu', rd=RDQ), _op('masses'), _op('masses', masses=63.5, rd=RDQ), _op('pbc'),
        _op('df'), _op('side'), _op('side', fresh=0, act=0, k=1), _op('refuse'),
    ]


def _state_ops():
    """the operations that touch the per-type state (number of atom types, symbols, masses) and the reads that fill it lazily"""
    return [
        _op('set', via='attr', name=0, tmax=6, rd=RDQ), _op('set', via='prop', name=0, tmax=2),
        _op('setidx', via='a_id', name=0, tmax=6, vmode='one', rd=RDQ), _op('setitem', via='prop', idx=CANON_IDX[4], vmode='one', tmax=6),
        _op('symbols'), _op('symbols', syms='Cu', rd=RDQ), _op('symbols', syms=[], rd=RD0),
        _op('masses'), _op('masses', masses=63.5, rd=RDQ), _op('masses', masses=[1, 2, 3, 4, 5], fit=False),
        _op('extend', via='system', symbols=['Ni', 'Al', 'Cu', 'H'], rd=RDQ), _op('extend', via='system', what='int'),
        _op('getatoms', via='atoms_ix', idx=CANON_IDX[1], adopt=True), _op('getatoms', via='deepcopy_sys', adopt=True, rd=RDQ),
        _op('ptype', name=9), _op('df'),
    ]


def _grid():
    """every combination of the options of one call"""
    ops = []
    for idx in CANON_IDX:
        for via in ('prop', 'a_id', 'sysprop', 'scaled'):
            for name in (0, 1):
                ops.append(_op('get', via=via, idx=idx, name=name))
        for via in ('prop', 'sysprop', 'a_id', 'view'):
            for vmode in ('one', 'many'):
                for af in (0, True, 35):
                    ops.append(_op('setidx', via=via, idx=idx, vmode=vmode, aslist=af, name=4, mut=2))
        for vmode in ('one', 'many'):
            for aid in (False, True):
                for name in (0, 1):
                    ops.append(_op('scaled_set', idx=idx, vmode=vmode, aid=aid, name=name, mut=1))
        for via in ('getitem', 'atoms_ix', 'prop', 'a_id', 'sysprop', 'scaled', 'deepcopy', 'deepcopy_sys'):
            for adopt in (False, True):
                ops.append(_op('getatoms', via=via, idx=idx, adopt=adopt))
        for via in ('atoms', 'ix_atoms', 'ix_system', 'prop', 'sysprop', 'sysprop_scaled'):
            for vmode in ('one', 'many'):
                for aid in (False, True):
                    for reverse in (False, True):
                        ops.append(_op('setitem', via=via, idx=idx, vmode=vmode, aid=aid, reverse=reverse, mut=1))
    for via in ('atoms', 'system'):
        for what in ('int', 'atoms'):
            for scale in (False, True):
                for symbols in (None, ['Ni', 'Al', 'Cu', 'H']):
                    for safecopy in (False, True):
                        for same in (False, True):
                            for eq in (0, 1, 2):
                                ops.append(_op('extend', via=via, what=what, scale=scale, symbols=symbols, safecopy=safecopy, same=same, eq=eq, mut=1))
    for mode in ('all', 'one', 'short', 'absent'):
        for name in (3, 9):
            for nptype in (False, True):
                for af in (0, True, 4):
                    ops.append(_op('ptype', mode=mode, name=name, nptype=nptype, aslist=af, t=1))
    return ops


def options_cases(tier):
    cases = []
    alpha = _alphabet()
    inits = CANON_INIT if tier == 'thorough' else CANON_INIT[:1]
    for init in inits:
        for a in alpha:
            for b in alpha:
                cases.append({'init': init, 'fin': RD0, 'ops': [a, b], 'h': 'pair'})
    for init in inits:
        for o in _grid():
            cases.append({'init': init, 'fin': RD0, 'ops': [o], 'h': 'grid'})
    # the constructors
    for ctor in ('natoms', 'bcast', 'lists', 'arrays', 'prop'):
        for scale in (False, True):
            for safecopy in (False, True):
                for symbols in (None, 'Al', ['Al'], ['Al', 'Cu', 'Fe', 'O', 'H']):
                    for masses in (None, [27.0], [27, None, 55.75]):
                        for sd in (0, 1, 3):
                            if sd and ctor not in ('arrays', 'prop'):
                                continue
                            init = dict(CANON_INIT[0], ctor=ctor, scale=scale, safecopy=safecopy, symbols=symbols, masses=masses, sd=sd, rd=RDQ)
                            cases.append({'init': init, 'fin': RD0, 'ops': [_op('get', via='scaled', idx=CANON_IDX[4]), _op('extend', via='system', what='int')], 'h': 'ctor'})
    if tier == 'thorough':
        st3 = _state_ops()
        for init in CANON_INIT:
            for a in st3:
                for b in st3:
                    for c in st3:
                        cases.append({'init': init, 'fin': RDQ, 'ops': [a, b, c], 'h': 'triple'})
    return cases


def oracle_options(case):
    labels = set(oracle_history(case))
    labels.add('h:' + case['h'])
    labels.add('nt')
    return labels


CLAUSES = [
    Clause('history', oracle_history, history_cases, quick=3300, thorough=100000,
           min_share={'nt': 0.18, 'ext_then_write': 0.17, 'ptype_after_growth': 0.07, 'scaled_ext': 0.007, 'type_growth': 0.2,
                      'idx:-1': 0.09, 'idx:empty': 0.13, 'idx:mask': 0.17, 'idx:repeat': 0.09, 'idx:step': 0.11,
                      'selfset_overlap': 0.058, 'adopt_sub': 0.09, 'probe_get_copy': 0.17, 'probe_extract_copy': 0.12,
                      'probe_prop_set_copy': 0.09, 'refusal': 0.24, 'ext:superset': 0.035, 'ext:subset': 0.03, 'ext:overlap': 0.09,
                      'len>=20': 0.11, 'scaled_get': 0.07, 'scaled_atoms_set': 0.05, 'ptype_one_newkey': 0.03,
                      'rd:permuted': 0.4, 'rd:quiet': 0.4, 'rd:subset': 0.33, 'rd:mas_first': 0.25, 'rd:nty_first': 0.22,
                      'rd:mas_first_after_inplace_growth': 0.017, 'rd:nty_first_after_inplace_growth': 0.01,
                      'rd:quiet_after_inplace_growth': 0.072, 'pad_uncertain': 0.012,
                      'af:int': 0.22, 'af:int:narrow': 0.16, 'af:int:unsigned': 0.1, 'af:int:bool': 0.02, 'af:int:pyint': 0.035,
                      'af:int:int64': 0.045, 'af:int:float_as_not64': 0.16, 'scaled_atoms_set_inttyped': 0.012,
                      'scaled_atoms_set_int_not64': 0.009, 'af:noncontig': 0.14, 'af:npscalar': 0.18, 'af:readonly': 0.16, 'af:tuple': 0.2,
                      # cross-pollinated classes (half of the smallest share seen at seeds 1-4)
                      'ledger': 0.4, 'ledger:array': 0.33, 'ledger:atoms': 0.39, 'ledger:list': 0.078, 'ledger:across_objects': 0.35,
                      'side:operand': 0.33, 'side:write': 0.31, 'side:defaults': 0.33,
                      'in_unchanged': 0.5, 'mut:in': 0.39, 'mut:in:atoms': 0.23, 'mut:reuse': 0.09,
                      'af:narrow': 0.12, 'af:narrow:float32': 0.04, 'af:narrow:float16': 0.017, 'af:narrow:bigendian': 0.1,
                      'sd': 0.11, 'sd:bigendian': 0.055, 'sd:native': 0.047, 'refuse:atype0:typed': 0.029, 'refuse:atype0:unsigned': 0.006,
                      'vm:tiny': 0.19, 'vm:dec': 0.19, 'dec:8': 0.069, 'dec:8:scaled': 0.012, 'scaled_get_rowwise': 0.017, 'near:box': 0.033,
                      'idx:perm': 0.23, 'idx:perm:identity': 0.066, 'idx:perm:reverse': 0.061, 'idx:perm:cyclic': 0.064,
                      'selfset_perm': 0.1, 'selfset_perm_moves': 0.042, 'ext:same_order': 0.035, 'ext:reversed_order': 0.03,
                      'opt:aid_scaled_set': 0.054, 'opt:aid_atoms_set': 0.05, 'opt:aid_atoms_set_scaled': 0.0148},
           desc='edit histories on one System/Atoms pair against a record-per-atom model: rectangular, row-aligned, model-equal, '
                'atype >= 1, symbols/masses long enough after every step; copying accessors do not alias; operands of '
                'new-object operations unchanged; refusals leave the state unchanged'),
    Clause('options', oracle_options, enumerate=options_cases, quick=1, thorough=1,
           min_share={'h:pair': 0.12, 'h:grid': 0.06, 'h:ctor': 0.015},
           desc='the same interpreter and oracles on ENUMERATED histories: every combination of the options of one call of every '
                'entry point, every constructor option combination, every ordered pair (thorough: per-type state triples) of a '
                'fixed alphabet of operations touching the same state'),
]
