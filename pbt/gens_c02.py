"""Strategies for C02 (periodic separation).  Cases are JSON-able dicts.

A *pairs case* is
  {'cell': <gens cell dict>, 'cart': bool, 'p0': [[3 floats] x N0], 'p1': [[3 floats] x N1],
   'flat0': bool, 'flat1': bool, 'spell': 'array'|'list'|'tuple'|'fview' (strided view of a wider array)|'intlist' (Python ints when every
   coordinate is integer-valued and the route is am.dvect/am.dmag, else float list), 'pbcspell': 'list'|'tuple'|'array',
   'route': 'func'|'sys_pos'|'sys_idx'|'sys_mix' (pos_0 positions, pos_1 atom indices),
   'idx': 'int'|'npint'|'list'|'array'|'slice'|'neg'|'mask', 'kind': str,
   'postype': 'float'|'intlist'|'int64'|'int32' (how whole-number Cartesian positions are handed to Atoms for the System routes:
   anything but 'float' makes Atoms keep them as an INTEGER array), 'pbcrot': int (order in which the 8 periodicity settings
   are gone through on the same objects), 'magfirst': bool (dmag before dvect in the mag clause),
   'hist': None | {'cell': <the cell the Box object describes FIRST>, 'how': <public way of changing that same Box object in
   place into 'cell' of the case>, 'warm': 'none'|'dmag'|'dvect'|'both' (judged calls on the box before it is changed),
   'wform': 'func'|'sys', 'wpbc': 0..7, 'setpos': <public way of giving the System its positions for the new cell>,
   'peek': bool (derived Box quantities read before and after the change), 'ghost': bool (a short-lived other Box is used and
   dropped first)},
   'fdtype': 'f64'|'f32'|'f16' (floating dtype the positions are STORED / passed in: for 'f32'/'f16' the oracle rounds every
   Cartesian position to that dtype first, so the stored values are exact and the expected separation is exact; Atoms keeps
   the dtype), 'after': 0..3 (bit 0: a judged call with ANOTHER number of pairs, bit 1: a judged single-pair call, after the
   8 judged calls of the case and before every result handed out earlier is compared with its snapshot)}
with N0, N1 in {1, N} (one-to-one, one-to-many either side, many-to-many).  'p0'/'p1' are relative coordinates of
the cell (Cartesian = s.V + origin, computed by the oracle) unless 'cart' is true, in which case they are Cartesian
in units of cell['scale'] (the oracle multiplies them by it).
Every cell dict carries an overall LENGTH SCALE 'scale' = 10^k (k = 0 in 3 of 8 cases, else -12..6, the SI value 1e-10
favoured): gens.cell_vects / gens.cell_origin multiply vectors and origin by it, so cell, origin and positions are the
same crystal expressed in another length unit (atomman's working units may be SI).  Nothing in the documented behaviour
of the separation functions depends on the unit, and every tolerance of the oracles is relative to the cell size.
All 8 periodicity settings are looped over by the oracle, so pbc is not part of the case.

Generator classes carried over from the other properties (see the audit in pbt/checks/c02.py):
  cell['sym'] = None | {'perm': relabelling of the three cell vectors, 'axes': permutation of the Cartesian axes, 'signs':
      their signs}: the EXACTLY structured version of the cell (cell_vects below: rows relabelled, columns permuted and
      negated - no arithmetic, so upper-triangular cells, triangular cells with negative diagonal, left-handed cells and signed
      permutations of an orthogonal cell are met with exact zeros);
  kind 'thresh': near-threshold pairs (separation within 1e-3..1e-13 relative of HALF a cell vector - almost a tie between two
      images; points within 1e-3..1e-15 of a face, inside and outside) in cells with almost-zero tilts (1e-3..1e-13 lx);
  kind 'decades': many-to-many pairs whose separations span 8+ orders of magnitude in ONE call (row i: 10^-k_i of the cell);
  'idt' / 'lim': integer dtype (int8 ... uint64, big-endian, bool) in which whole-number positions are handed to am.dvect /
      am.dmag ('spell' 'narrowint' = ndarray of that dtype, 'npscalars' = nested lists of its numpy scalars), the points shifted
      by a whole number so that the largest ('hi') / smallest ('lo') coordinate IS the limit of the dtype;
  'fdtype' 'f64be' / 'f32be': big-endian floating storage; 'idx' 'i8arr' ... : narrow / unsigned / big-endian index dtypes;
  'reuse': after the judged calls the caller overwrites in place the arrays it was handed OUT and the ones it handed IN
      (positions, pbc flags, System positions), re-defines the Box through its setter and calls again with the SAME objects.
"""
import functools

import numpy as np
from hypothesis import strategies as st

from . import gens

# ----------------------------------------------------------------------------- coordinates

# one integer draw per coordinate (cheap to generate, shrinks towards 0.0): 4-digit decimals mixed with exact specials
_IN_SPECIAL = (0.0, 1.0, 0.0, 1.0, 0.5, 0.25, 0.75)
_WIDE_SPECIAL = (-1.0, 2.0, 0.0, 1.0, 1.5, -0.5)


def _in_value(k):
    return k / 10000.0 if k <= 10000 else _IN_SPECIAL[(k - 10001) % 7]


def _wide_value(k):
    return k / 10000.0 if k <= 40000 else _WIDE_SPECIAL[(k - 40001) % 6]


_IN = st.integers(0, 16000).map(_in_value)            # [0,1] incl. faces; ~37 % exact 0, 1, 1/2, 1/4, 3/4
_WIDE = st.integers(-30000, 46000).map(_wide_value)   # [-3,4]; ~8 % exact -1, 2, 0, 1, 3/2, -1/2
_PT_IN = st.lists(_IN, min_size=3, max_size=3)
_PT_WIDE = st.lists(_WIDE, min_size=3, max_size=3)
_DYAD8 = st.integers(0, 8).map(lambda k: k / 8.0)
_PT_DYAD = st.lists(_DYAD8, min_size=3, max_size=3)
_INTF = st.integers(-3, 9).map(float)
_PT_INT = st.lists(_INTF, min_size=3, max_size=3)

_SHAPES = st.sampled_from(['1-1', '1-N', 'N-1', 'N-N', 'N-N', '1-N', 'N-1'])
_NMANY = st.integers(2, 5)
_SPELL = st.sampled_from(['array', 'array', 'list', 'tuple', 'fview', 'intlist', 'readonly', 'forder', 'intarray'])
_POSTYPE = st.sampled_from(['float', 'intlist', 'int64', 'int32'])
_PBCROT = st.integers(0, 15)
_PBCSPELL = st.sampled_from(['list', 'tuple', 'array'])
_ROUTE = st.sampled_from(['func', 'func', 'func', 'func', 'sys_pos', 'sys_idx', 'sys_idx', 'sys_mix'])
_IDX = st.sampled_from(['int', 'list', 'array', 'slice', 'neg', 'npint', 'mask'] * 4 + ['i8arr', 'u8arr', 'bearr', 'u64s', 'i16neg'])
_BOOL = st.booleans()
_FDTYPE = st.sampled_from(['f64'] * 8 + ['f32'] * 3 + ['f16'] * 2 + ['f64be'] * 2 + ['f32be'])
# whole-number Cartesian positions (kind intcart): integer-typed spellings favoured
_SPELL_WHOLE = st.sampled_from(['intlist', 'intarray', 'narrowint', 'narrowint', 'narrowint', 'npscalars', 'array', 'list', 'fview',
                                'readonly', 'forder', 'tuple', 'narrowint', 'narrowint', 'npscalars', 'narrowint'])
IDTYPES = ('i1', 'u1', 'i2', 'u2', '>i2', 'i4', 'u4', '>i4', '>u4', 'i8', 'u8', '>i8', 'bool')
_IDT = st.sampled_from(IDTYPES + ('i1', 'u1', 'u2', 'u8'))
_LIM = st.sampled_from(['hi', 'hi', 'lo', None])
_REUSE = st.integers(0, 9).map(lambda k: k < 5)
_AFTER = st.integers(0, 3)
# overall length scale 10^k of the cell, its origin and the positions; index 0 (k = 0) is what cases shrink to
_SCALE_K = (0, 0, 0, 0, 0, 0, 0, 0, 0, 0, 0, 0, -10, -10, -10, -12, -11, -9, -8, -7, -6, -5, -4, -3, -2, -1, 1, 2, 3, 4, 5, 6)
_SCALE = st.integers(0, len(_SCALE_K) - 1).map(lambda i: 10.0 ** _SCALE_K[i])
# for whole-number Cartesian positions: they stay whole (and are stored / passed as integers) only in a unit 10^k >= 1
_SCALE_K_WHOLE = (0, 0, 0, 0, 0, 0, 0, 0, 0, 0, 0, 0, 0, 0, 1, 2, 3, 4, 5, 6, 1, 2, 3, 4, 5, 6, -10, -10, -12, -7, -3, -1)
_SCALE_WHOLE = st.integers(0, len(_SCALE_K_WHOLE) - 1).map(lambda i: 10.0 ** _SCALE_K_WHOLE[i])
_U01 = st.integers(20, 980).map(lambda k: k / 1000.0)
_DIR = st.integers(-1000, 1000).map(lambda k: k / 1000.0)


# ----------------------------------------------------------------------------- cells (same domain and dict format as
# gens.cells, i.e. the C01 cells, but every number is one integer draw mapped to a 3-digit decimal: ~4x cheaper)

_MILLI = {}


def _milli(lo, hi):
    """3-digit decimals in [lo, hi]"""
    key = (lo, hi)
    if key not in _MILLI:
        _MILLI[key] = st.integers(int(round(lo * 1000)), int(round(hi * 1000))).map(lambda k: k / 1000.0)
    return _MILLI[key]


_KIND = st.sampled_from(['tri', 'tri', 'ortho', 'family'])
_TILT = st.integers(-1500, 2250).map(lambda k: k / 1000.0 if k <= 1500 else 0.0)     # [-1.5,1.5], 1 in 5 exactly 0
_ORIGIN = _milli(-100.0, 100.0)
_AXIS = st.integers(0, 11 ** 3 - 2).map(lambda k: k if k < 665 else k + 1).map(          # all of {-5..5}^3 except 0,0,0
    lambda k: [k // 121 - 5, (k // 11) % 11 - 5, k % 11 - 5])
_ANGLE = _milli(1.0, 180.0)
_FAMILY = gens.family_params()


@st.composite
def cells_fast(draw, lmin=0.5, lmax=50.0):
    kind = draw(_KIND)
    if kind == 'family':
        fp = draw(_FAMILY)
        lx, ly, lz, xy, xz, yz = gens.abc_to_lammps(*fp['abc'])
    else:
        ln = _milli(lmin, lmax)
        lx, ly, lz = draw(ln), draw(ln), draw(ln)
        if kind == 'ortho':
            xy = xz = yz = 0.0
        else:
            xy, xz, yz = draw(_TILT) * lx, draw(_TILT) * lx, draw(_TILT) * ly
    org = [0.0, 0.0, 0.0]
    if draw(_BOOL):
        org = [draw(_ORIGIN), draw(_ORIGIN), draw(_ORIGIN)]
    rot = None
    if draw(_BOOL):
        rot = [draw(_AXIS), draw(_ANGLE)]
    return {'lx': lx, 'ly': ly, 'lz': lz, 'xy': xy, 'xz': xz, 'yz': yz, 'origin': org, 'rot': rot, 'lefthanded': False}


_CELLS = cells_fast()
_CELLS_MILD = cells_fast(lmin=2.0, lmax=9.0)


@st.composite
def dyadic_cells(draw, tilted=True):
    """cells whose entries and origin are multiples of 1/16 (all image arithmetic exact in binary)"""
    L = [draw(gens.dyadic(0.5, 8.0)) for _ in range(3)]
    t = [0.0, 0.0, 0.0]
    if tilted and draw(_BOOL):
        t = [draw(gens.dyadic(-6.0, 6.0)) for _ in range(3)]
    o = [draw(gens.dyadic(-8.0, 8.0)) for _ in range(3)] if draw(_BOOL) else [0.0, 0.0, 0.0]
    return {'lx': L[0], 'ly': L[1], 'lz': L[2], 'xy': t[0], 'xz': t[1], 'yz': t[2], 'origin': o, 'rot': None,
            'lefthanded': False}


@st.composite
def integer_cells(draw):
    """cells with small integer entries (as floats) and integer origin"""
    L = [float(draw(st.integers(1, 6))) for _ in range(3)]
    t = [float(draw(st.integers(-4, 4))) if draw(_BOOL) else 0.0 for _ in range(3)]
    o = [float(draw(st.integers(-5, 5))) for _ in range(3)]
    return {'lx': L[0], 'ly': L[1], 'lz': L[2], 'xy': t[0], 'xz': t[1], 'yz': t[2], 'origin': o, 'rot': None,
            'lefthanded': False}


_DYCELLS = dyadic_cells()
_INTCELLS = integer_cells()


# ----------------------------------------------------------------------------- exactly structured cells
# cell['sym']: the three cell vectors relabelled (perm), the Cartesian axes permuted (axes) and mirrored (signs).  Only
# re-ordering and negation: every zero of the triangular form stays an exact zero, in another place.

_PERMS = ((0, 1, 2), (1, 2, 0), (2, 0, 1), (2, 1, 0), (0, 2, 1), (1, 0, 2))
_SIGNS = tuple((1 - 2 * (k & 1), 1 - 2 * ((k >> 1) & 1), 1 - 2 * ((k >> 2) & 1)) for k in range(8))
_SYMK = st.integers(0, 6 * 6 * 8 - 1)
# 0..5 none; 6,7 'reversed' (lower-triangular -> upper-triangular); 8 negated diagonal; 9 cyclic relabelling of vectors and
# axes together; 10 a left-handed mirror; 11..13 any signed permutation
_SYMSEL = st.integers(0, 13)


def _sym(draw):
    k = draw(_SYMSEL)
    if k <= 5:
        return None
    if k <= 7:
        return {'perm': [2, 1, 0], 'axes': [2, 1, 0], 'signs': [1, 1, 1]}
    if k == 8:
        j = draw(_SYMK) % 7 + 1
        return {'perm': [0, 1, 2], 'axes': [0, 1, 2], 'signs': list(_SIGNS[j])}
    if k == 9:
        return {'perm': [1, 2, 0], 'axes': [1, 2, 0], 'signs': [1, 1, 1]}
    if k == 10:
        return {'perm': [0, 1, 2], 'axes': [0, 1, 2], 'signs': [1, 1, -1]}
    j = draw(_SYMK)
    sym = {'perm': list(_PERMS[j % 6]), 'axes': list(_PERMS[(j // 6) % 6]), 'signs': list(_SIGNS[j // 36])}
    if sym['perm'] == [0, 1, 2] and sym['axes'] == [0, 1, 2] and sym['signs'] == [1, 1, 1]:
        return None
    return sym


def cell_vects(c):
    """gens.cell_vects, then the exact re-ordering / mirroring c['sym']"""
    V = gens.cell_vects(c)
    sym = c.get('sym')
    if sym:
        V = V[list(sym['perm'])][:, list(sym['axes'])] * np.array(sym['signs'], dtype=float)
    return V


def cell_origin(c):
    o = gens.cell_origin(c)
    sym = c.get('sym')
    if sym:
        o = o[list(sym['axes'])] * np.array(sym['signs'], dtype=float)
    return o


def sym_labels(c):
    """labels of the exactly structured classes (decided from the cell the case asks for)"""
    sym = c.get('sym')
    if not sym:
        return set()
    labs = {'sym'}
    V = cell_vects(c)
    if list(sym['perm']) != [0, 1, 2]:
        labs.add('sym_relabel')
    if float(np.linalg.det(V / np.abs(V).max())) < 0:
        labs.add('sym_lefthanded')
    lower0 = V[1, 0] == 0 and V[2, 0] == 0 and V[2, 1] == 0
    upper0 = V[0, 1] == 0 and V[0, 2] == 0 and V[1, 2] == 0
    if lower0 and not upper0:
        labs.add('sym_upper')           # upper-triangular with at least one non-zero entry above the diagonal
    if (lower0 or upper0) and np.any(np.diag(V) < 0):
        labs.add('sym_negdiag')
    if not (lower0 or upper0):
        cnt = (V != 0).sum()
        labs.add('sym_signed_perm' if cnt == 3 else 'sym_mixed')
    return labs


# ----------------------------------------------------------------------------- near-threshold values, decades

_EXP_TILT = st.integers(3, 13)
_EXP_TIE = st.integers(3, 13)
_EXP_FACE = st.integers(3, 15)
_SIGN = st.sampled_from([-1.0, 1.0])
_TRI = st.integers(0, 2)
_LOW = st.integers(0, 4500).map(lambda k: k / 10000.0)         # [0, 0.45]
_MASK7 = st.integers(1, 7)


def _tiny_tilt_cell(draw):
    """a mild orthogonal / triclinic cell in which one to three tilts are 10^-k lx (k = 3..13): almost orthogonal,
    almost monoclinic.  (Box zeroes components below 1e-9 of the largest one; the oracle reads the cell back from the Box.)"""
    c = dict(draw(_CELLS_MILD))
    m = draw(_MASK7)
    for bit, key, ref in ((1, 'xy', 'lx'), (2, 'xz', 'lx'), (4, 'yz', 'ly')):
        if m & bit:
            c[key] = draw(_SIGN) * 10.0 ** (-draw(_EXP_TILT)) * c[ref]
        elif draw(_BOOL):
            c[key] = 0.0
    return c


def _near_tie_point(draw, s0):
    """s1 = s0 +- (1/2)(1 + e) along one to three cell vectors, e = +-10^-k: the direct separation and its image through
    that face are almost equally long"""
    m = draw(_MASK7)
    s1 = []
    for j in range(3):
        if m & (1 << j):
            e = draw(_SIGN) * 10.0 ** (-draw(_EXP_TIE))
            s1.append(s0[j] + 0.5 * (1.0 + e))
        else:
            s1.append(s0[j] + draw(_LOW))
    return s1


def _near_face_point(draw):
    """relative coordinates of which one to three are 10^-k away from 0 or 1, inside or outside the cell"""
    m = draw(_MASK7)
    s = []
    for j in range(3):
        if m & (1 << j):
            s.append(float(draw(_BOOL)) + draw(_SIGN) * 10.0 ** (-draw(_EXP_FACE)))
        else:
            s.append(draw(_IN))
    return s


_DEC_LO = st.integers(0, 2)
_DEC_HI = st.integers(10, 14)
_DEC_ANY = st.integers(0, 14)


def _decade_rows(draw, n, p0):
    """row i of p1 = row i of p0 + 10^-k_i u_i (relative coordinates): k runs from k_lo <= 2 to k_hi >= 10 within ONE array"""
    ks = [draw(_DEC_LO), draw(_DEC_HI)] + [draw(_DEC_ANY) for _ in range(n - 2)]
    r = draw(st.integers(0, n - 1))
    ks = ks[r:] + ks[:r]
    p1 = []
    for i in range(n):
        u = [draw(_DIR), draw(_DIR), draw(_DIR)]
        if max(abs(x) for x in u) < 0.05:
            u[i % 3] = 1.0
        base = p0[i % len(p0)]
        p1.append([base[j] + 10.0 ** (-ks[i]) * u[j] for j in range(3)])
    return p1


# ----------------------------------------------------------------------------- object history
# The separation functions read the cell from a Box OBJECT, and a Box (and the System holding it) can be changed in place.
# A history makes the Box describe another cell first, optionally lets the judged functions see it in that state, and then
# turns the SAME object into the cell of the case through one of the public ways of doing that.

HOWS = ('vects=', 'set_vects', 'set_avect', 'set_vectors', 'set_lengths', 'set_hi_los', 'set_abc', 'sys_box_set',
        'sys_box_set_scale', 'wrap', 'sys_box_vects=')
_HOW = st.sampled_from(HOWS + ('sys_box_set_scale', 'wrap'))
_WARM = st.sampled_from(['none', 'dmag', 'dmag', 'dvect', 'both', 'both'])
_WFORM = st.sampled_from(['func', 'sys'])
_SETPOS = st.sampled_from(['slice', 'attr', 'prop', 'prop_scaled', 'view', 'keep'])
_STRAIN = st.integers(900, 1100).map(lambda k: k / 1000.0)
_SHEAR = st.integers(-100, 100).map(lambda k: k / 1000.0)
_PBCI = st.integers(0, 7)
_TEN = st.integers(0, 9)
_SUB = st.integers(0, 28)


def _strained(draw, c0):
    """the same cell, lengths changed by up to 10 % and sheared a little (what System.box_set(scale=True) is used for)"""
    c1 = dict(c0)
    for k in ('lx', 'ly', 'lz'):
        c1[k] = round(c0[k] * draw(_STRAIN), 6)
    c1['xy'] = round(c0['xy'] + draw(_SHEAR) * c0['lx'], 6)
    c1['yz'] = round(c0['yz'] + draw(_SHEAR) * c0['ly'], 6)
    return c1


def _history(draw, cell, share=4):
    if draw(_TEN) >= share:
        return None
    prior = _strained(draw, cell) if draw(_BOOL) else dict(draw(_CELLS_MILD))
    return {'cell': prior, 'how': draw(_HOW), 'warm': draw(_WARM), 'wform': draw(_WFORM), 'wpbc': draw(_PBCI),
            'setpos': draw(_SETPOS), 'peek': draw(_BOOL), 'ghost': draw(_TEN) < 3}


def _shape_counts(draw):
    shape = draw(_SHAPES)
    n = draw(_NMANY)
    n0 = 1 if shape[0] == '1' else n
    n1 = 1 if shape[-1] == '1' else n
    return shape, n0, n1


def _near_partner(draw, V, s0):
    """relative coordinates of a point at a distance below half the smallest perpendicular width from s0,
    wrapped back into the cell (so the nearest image usually crosses a face)"""
    inv = np.linalg.inv(V)
    wmin = float((1.0 / np.linalg.norm(inv, axis=0)).min())
    u = np.array([draw(_DIR), draw(_DIR), draw(_DIR)])
    nu = float(np.linalg.norm(u))
    if nu < 1e-3:
        u, nu = np.array([1.0, 0.0, 0.0]), 1.0
    delta = u / nu * (draw(_U01) * 0.5 * wmin)
    s1 = (np.asarray(s0, dtype=float) + delta @ inv) % 1.0
    return [min(1.0, max(0.0, round(float(x), 6))) for x in s1]


def _int_limits(idt):
    """(lowest, highest) whole number of the integer dtype `idt` that a float64 holds exactly"""
    if idt == 'bool':
        return 0, 1
    ii = np.iinfo(np.dtype(idt))
    return max(int(ii.min), -2 ** 53), min(int(ii.max), 2 ** 53)


@st.composite
def pairs_cases(draw, incell_share=7, near_share=0, routes=True, allow_cart=True):
    """general generator of DESIGN C02: cells as C01; 70 % of the point sets in [0,1]^3 (incl. faces), 30 % in [-3,4]^3"""
    sub = draw(_SUB)
    cart = False
    if sub <= 2 and allow_cart:
        cell = draw(_INTCELLS)
        kind = 'intcart'
        cart = True
    elif sub <= 5:
        cell = draw(_DYCELLS)
        kind = 'dyadic'
    elif sub <= 9:
        cell = draw(_CELLS_MILD)
        kind = 'mild'
    elif sub <= 22:
        cell = draw(_CELLS)
        kind = 'generic'
    elif sub <= 25:
        cell = _tiny_tilt_cell(draw) if draw(_TRI) else draw(_CELLS_MILD)
        kind = 'thresh'
    else:
        cell = draw(_CELLS_MILD if draw(_BOOL) else _CELLS)
        kind = 'decades'
    # the exactly structured version of the cell (before the points: 'near' partners are built in the cell really used)
    cell = dict(cell)
    cell['sym'] = _sym(draw)
    shape, n0, n1 = _shape_counts(draw)
    if kind == 'decades':
        n0 = n1 = draw(st.integers(4, 6))       # many-to-many: each row has its own magnitude
    if cart:
        p0 = [draw(_PT_INT) for _ in range(n0)]
        p1 = [draw(_PT_INT) for _ in range(n1)]
    elif kind == 'dyadic':
        p0 = [draw(_PT_DYAD) for _ in range(n0)]
        p1 = [draw(_PT_DYAD) for _ in range(n1)]
    elif kind == 'thresh':
        if draw(_TRI):      # almost a tie between the direct separation and an image (both points inside the cell)
            p0 = [[draw(_LOW), draw(_LOW), draw(_LOW)] for _ in range(n0)]
            p1 = [_near_tie_point(draw, p0[i % n0]) for i in range(n1)]
            kind += '+tie'
        else:               # points almost on a face
            p0 = [_near_face_point(draw) for _ in range(n0)]
            p1 = [_near_face_point(draw) for _ in range(n1)]
            kind += '+face'
    elif kind == 'decades':
        p0 = [draw(_PT_IN) for _ in range(n0)]
        p1 = _decade_rows(draw, n1, p0)
    else:
        incell = draw(st.integers(0, 9)) < incell_share
        pt = _PT_IN if incell else _PT_WIDE
        p0 = [draw(pt) for _ in range(n0)]
        p1 = [draw(pt) for _ in range(n1)]
        if incell and near_share and draw(st.integers(0, 9)) < near_share:
            V = cell_vects(cell)
            p1 = [_near_partner(draw, V, p0[i % n0]) for i in range(n1)]
            kind += '+near'
    route = draw(_ROUTE) if routes else 'func'
    hist = _history(draw, cell)
    # the length unit: attached last, everything above is in units of it
    cell['scale'] = draw(_SCALE_WHOLE if cart else _SCALE)
    idt = lim = None
    if cart:
        # integer dtype in which the whole-number positions are handed to the free functions, and (2 cases in 3) a whole-number
        # shift of points and origin that puts the largest / smallest coordinate ON the limit of that dtype (unit 1 then)
        idt, lim = draw(_IDT), draw(_LIM)
        lo, hi = _int_limits(idt)
        if idt == 'bool':
            p0 = [[float(int(v) % 2) for v in q] for q in p0]
            p1 = [[float(int(v) % 2) for v in q] for q in p1]
            lim = None
            cell['scale'] = 1.0
        elif lim is not None:
            allv = [v for q in p0 + p1 for v in q]
            shift = float(hi - int(max(allv))) if (lim == 'hi' or (lo == 0 and draw(_BOOL))) else float(lo - int(min(allv)))
            p0 = [[v + shift for v in q] for q in p0]
            p1 = [[v + shift for v in q] for q in p1]
            org = list(cell['origin'])      # the origin goes along (by the same Cartesian shift, whatever cell['sym'] does to it)
            sym = cell['sym'] or {'axes': [0, 1, 2], 'signs': [1, 1, 1]}
            for j in range(3):
                org[sym['axes'][j]] += shift * sym['signs'][j]
            cell['origin'] = org
            cell['scale'] = 1.0
    if hist is not None:    # the Box object usually described a cell in the same unit before, sometimes in another one
        hist['cell']['scale'] = cell['scale'] if draw(_TEN) < 8 else draw(_SCALE)
    return {'cell': cell, 'cart': cart, 'p0': p0, 'p1': p1, 'flat0': n0 == 1 and draw(_BOOL),
            'flat1': n1 == 1 and draw(_BOOL), 'spell': draw(_SPELL_WHOLE if cart else _SPELL), 'pbcspell': draw(_PBCSPELL),
            'route': route, 'idx': draw(_IDX), 'kind': kind, 'postype': draw(_POSTYPE) if cart else 'float',
            'pbcrot': draw(_PBCROT), 'magfirst': draw(_BOOL), 'hist': hist, 'fdtype': draw(_FDTYPE), 'after': draw(_AFTER),
            'idt': idt, 'lim': lim, 'reuse': draw(_REUSE)}


@functools.lru_cache(maxsize=None)
def general():
    return pairs_cases(incell_share=7, near_share=2)


@functools.lru_cache(maxsize=None)
def premise_heavy():
    return pairs_cases(incell_share=9, near_share=6, allow_cart=False)


# ----------------------------------------------------------------------------- displacement

_REF = st.sampled_from(['final', 'initial', 'initial', None, 'default'])
_MODE = st.sampled_from(['same', 'strained', 'strained', 'other'])
_SMALL = st.integers(-3000, 3000).map(lambda k: k / 10000.0)


_ITYPE = st.sampled_from(['0', '0', '1', 'both'])
_IFORM = st.sampled_from(['intlist', 'int64', 'int32'])
_BUILD = st.sampled_from(['abs', 'abs', 'scale', 'safecopy', 'sharedbox'])
_SHIFT3 = st.lists(st.integers(-1, 1), min_size=3, max_size=3)
_DHOW = st.sampled_from(['vects=', 'set_vects', 'set_avect', 'sys_box_set', 'sys_box_set_scale', 'sys_box_set_scale', 'wrap'])
_DSETPOS = st.sampled_from(['slice', 'attr', 'prop', 'prop_scaled', 'view', 'keep'])
# floating dtype in which the positions of system 0 / system 1 are stored (Atoms keeps a float32 / float16 pos dtype)
_FSTORE = st.sampled_from([None, None, None, None, None, None, ['f32', 'f32'], ['f32', 'f32'], ['f32', 'f64'], ['f64', 'f32'],
                           ['f16', 'f16'], ['f16', 'f32'], ['f16', 'f16'], ['f64be', 'f64be'], ['f32be', 'f32be'], ['f64be', 'f32']])


def _whole(x):
    return [float(round(v)) for v in x]


@st.composite
def displacement_cases(draw):
    """'rel0'/'rel1' are relative coordinates of cell0/cell1, or (when 'cart') Cartesian positions in units of the
    cells' common 'scale' (the oracle multiplies them by it) of which the ones of
    system 'itype' ('0', '1', 'both') are whole numbers handed to Atoms in the integer form 'iform' (Atoms then STORES
    them as integers); 'build': how the two System objects are made; 'hist': None or the cells the two Box objects describe
    first ('cell0', 'cell1'), whether displacement() is called (and judged) in that state, and the public ways in which the
    same Box / System objects are then turned into the systems of the case; 'fstore': None or the floating dtypes
    ('f64'|'f32'|'f16') in which the two systems STORE their positions (the oracle judges the positions the systems really
    hold, which are exact numbers); 'after': whether displacement() is also called (and judged) for the other reference cells
    before every result handed out earlier is compared with its snapshot; 'special': None | 'decades' (the atoms move by
    10^0..10^-14 of the cell in ONE call, both systems in the same cell) | 'tie' (by almost exactly half a cell vector);
    'reuse': the caller-side mutation stage (see the module docstring); cell0 / cell1 may carry 'sym'."""
    c0 = dict(draw(_CELLS_MILD if draw(_BOOL) else _CELLS))
    c0['sym'] = _sym(draw)          # the exactly structured version of the cell (kept by the 'same' / 'strained' cell of system 1)
    mode = draw(_MODE)
    if mode == 'same':
        c1 = dict(c0)
    elif mode == 'strained':
        c1 = _strained(draw, c0)
    else:
        c1 = draw(_CELLS_MILD)
    n = draw(st.integers(1, 6))
    rel0 = [draw(_PT_IN) for _ in range(n)]
    rel1 = []
    for i in range(n):
        k = draw(st.integers(0, 3))
        if k == 0:
            rel1.append(draw(_PT_WIDE))
        elif k == 1:
            rel1.append(draw(_PT_IN))
        else:   # displaced and wrapped back into the cell: the realistic use of displacement()
            rel1.append([round((rel0[i][j] + draw(_SMALL)) % 1.0, 6) for j in range(3)])
    special = {0: 'decades', 1: 'decades', 2: 'tie'}.get(draw(_TEN))
    if special == 'decades' and n < 2:
        special = None
    if special == 'decades':
        # displacements of the atoms spanning 8+ orders of magnitude in ONE call (a relaxed crystal: most atoms hardly move);
        # both systems in the same cell, or relative coordinates that differ by 1e-12 would not be positions that do
        rel1 = _decade_rows(draw, n, rel0)
        c1, mode = dict(c0), 'same'
    elif special == 'tie':
        # displaced by almost exactly half a cell vector: the direct separation and its image are almost equally long
        rel0 = [[min(v, 0.45) for v in q] for q in rel0]
        rel1 = [_near_tie_point(draw, q) for q in rel0]
    case = {'cell0': c0, 'cell1': c1, 'mode': mode, 'rel0': rel0, 'rel1': rel1, 'ref': draw(_REF),
            'pbc_other': draw(_PBCI), 'cart': False, 'itype': None, 'iform': None, 'build': draw(_BUILD), 'hist': None}
    if draw(_TEN) < 2:
        # whole-number Cartesian positions (lattice sites counted in whole units) in cells whose edges are not whole numbers
        V0, o0 = cell_vects(c0), cell_origin(c0)
        V1, o1 = cell_vects(c1), cell_origin(c1)
        itype = draw(_ITYPE)
        P0, P1 = [], []
        for i in range(n):
            delta = np.array([3 * draw(_SMALL) for _ in range(3)]) + np.array(draw(_SHIFT3), dtype=float) @ V1
            if itype == '1':
                q1 = np.array(_whole(np.array(rel1[i]) @ V1 + o1))
                q0 = np.round(q1 - delta, 6)
            else:
                q0 = np.array(_whole(np.array(rel0[i]) @ V0 + o0))
                q1 = np.round(q0 + delta, 6)
                if itype == 'both':
                    q1 = np.array(_whole(q1))
            P0.append([float(v) for v in q0])
            P1.append([float(v) for v in q1])
        case.update(cart=True, itype=itype, iform=draw(_IFORM), rel0=P0, rel1=P1, build='abs')
    if draw(_TEN) < 4:
        case['hist'] = {'cell0': _strained(draw, c0) if draw(_BOOL) else draw(_CELLS_MILD),
                        'cell1': _strained(draw, c1) if draw(_BOOL) else draw(_CELLS_MILD),
                        'how0': draw(_DHOW), 'how1': draw(_DHOW), 'warm': draw(_BOOL), 'wpbc': draw(_PBCI),
                        'setpos': draw(_DSETPOS)}
    # the length unit of both systems: attached last, everything above (the whole-number positions too) is in units of it
    scale = draw(_SCALE_WHOLE if case['cart'] else _SCALE)
    case['cell0'] = dict(c0, scale=scale)
    case['cell1'] = dict(c1, scale=scale)
    if case['hist'] is not None:
        for k in ('cell0', 'cell1'):
            case['hist'][k] = dict(case['hist'][k], scale=scale if draw(_TEN) < 8 else draw(_SCALE))
    case['fstore'] = draw(_FSTORE)
    case['after'] = draw(_BOOL)
    case['special'] = None if case['cart'] else special
    case['reuse'] = draw(_REUSE)
    return case


# ----------------------------------------------------------------------------- enumerated option pairs
# The options of the five entry points that touch the same state: the periodicity (8 settings; System.dvect / System.dmag /
# displacement read it from a System, the free functions are given it) and the entry point itself (for displacement with its
# reference cell).  Every ORDERED pair of (entry point, periodicity) states is run on the same objects, then the first again.

H_ENTRIES = ('dvect', 'dmag', 'sys_dvect', 'sys_dmag', 'disp_final', 'disp_default', 'disp_initial', 'disp_none')
H_CELLS = (
    # triclinic, rotated, shifted origin
    {'lx': 3.25, 'ly': 4.5, 'lz': 2.75, 'xy': 1.5, 'xz': -1.25, 'yz': 2.0, 'origin': [1.5, -2.25, 0.75], 'rot': [[1, 2, -1], 37.5],
     'lefthanded': False, 'sym': None, 'scale': 1.0},
    # the exactly structured one: upper-triangular with a negative diagonal entry, in metres
    {'lx': 4.0, 'ly': 2.5, 'lz': 3.0, 'xy': -1.0, 'xz': 1.5, 'yz': 0.75, 'origin': [0.0, 0.0, 0.0], 'rot': None,
     'lefthanded': False, 'sym': {'perm': [2, 1, 0], 'axes': [2, 1, 0], 'signs': [1, -1, 1]}, 'scale': 1e-10},
    # orthogonal, relabelled
    {'lx': 2.0, 'ly': 5.0, 'lz': 3.5, 'xy': 0.0, 'xz': 0.0, 'yz': 0.0, 'origin': [-4.0, 1.0, 2.0], 'rot': None,
     'lefthanded': False, 'sym': {'perm': [1, 2, 0], 'axes': [1, 2, 0], 'signs': [1, 1, 1]}, 'scale': 1.0},
    # monoclinic, large unit
    {'lx': 6.0, 'ly': 3.0, 'lz': 4.0, 'xy': 0.0, 'xz': 2.5, 'yz': 0.0, 'origin': [0.5, 0.5, 0.5], 'rot': [[0, 0, 1], 90.0],
     'lefthanded': False, 'sym': None, 'scale': 1000.0},
)


def option_pair_cases(tier):
    ncell = 2 if tier == 'quick' else len(H_CELLS)
    out = []
    for c in range(ncell):
        for a in range(len(H_ENTRIES)):
            for pa in range(8):
                for b in range(len(H_ENTRIES)):
                    for pb in range(8):
                        out.append({'cell': c, 'a': H_ENTRIES[a], 'pa': pa, 'b': H_ENTRIES[b], 'pb': pb})
    return out
