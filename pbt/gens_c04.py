"""Generator classes for C04 carried over from the seeded rounds (see /verif/seeded/INDEX.md, DESIGN 8.3).

  A  result ledger          everything a call returned is kept and compared BIT FOR BIT after every later call (Ledger)
  B  caller-side mutation   the caller overwrites in place what it handed in / got out; the other side must not move (post ops)
  C  storage / input dtypes narrow, unsigned, big-endian, bool, float32 / float16 integer matrices; numpy scalar multipliers of every
                            width; whole-number cells as int16 / int32 / unsigned / big-endian arrays; per-atom tags at the limits
                            of their integer dtype, float32 vector properties
  D  working units          the same case under atomman.unitconvert.reset_units(<other configuration>), lengths re-expressed with
                            numericalunits.angstrom, after the same call under the default configuration
  E  near-threshold         cells 1e-12 .. 1e-3 away from a more symmetric family, atoms 1e-12 .. 1e-3 from a face, integer matrices
                            carrying floating-point noise
  F  decades                per-atom vector property whose rows span 17 orders of magnitude (the only array of this property whose
                            rows are free in magnitude: positions lie in one cell, vector sets and multipliers are small integers)
  G  exactly structured     cells whose Cartesian axes are exactly permuted / reversed (lower- and upper-triangular cells with negative
                            entries), relabelled lattice vectors, origins at exact half lattice vectors, triangular vector sets
  H  enumerated options     see c04.py clause `options`

Everything here is numpy / Hypothesis only; nothing calls the atomman function it helps to judge.
"""
import numpy as np
from hypothesis import strategies as st

from .core import Violation, require, HarnessError

_byte = st.integers(0, 255)


# ----------------------------------------------------------------------------- A: ledger

def _frozen(a):
    a = np.asarray(a)
    return (a.dtype.str, a.shape, np.ascontiguousarray(a).tobytes())


def system_arrays(s):
    """every array a System holds (live per-atom arrays; the Box hands out copies)"""
    d = {}
    for k in s.atoms_prop():
        d['atoms.' + k] = s.atoms.view[k]
    d['box.vects'] = s.box.vects
    d['box.origin'] = s.box.origin
    d['pbc'] = np.asarray(s.pbc)
    d['symbols'] = np.array([str(x) for x in s.symbols], dtype='U')
    return d


def out_arrays(out):
    """a call's return value (System | ndarray | tuple of those) -> {name: array}"""
    d = {}
    items = out if isinstance(out, (tuple, list)) else (out,)
    for i, x in enumerate(items):
        if x is None:
            continue
        if hasattr(x, 'atoms_prop') and hasattr(x, 'box'):
            for k, v in system_arrays(x).items():
                d['[%d].%s' % (i, k)] = v
        else:
            d['[%d]' % i] = np.asarray(x)
    return d


def freeze(out):
    return {k: _frozen(v) for k, v in out_arrays(out).items()}


def first_difference(fa, fb, bitwise=True):
    """name of the first entry in which two frozen outputs differ (None: identical).  bitwise=False compares values
    (-0.0 == 0.0), dtypes and shapes"""
    for k in fa:
        if k not in fb:
            return k + ' (missing)'
        (da, sa, ba), (db, sb, bb) = fa[k], fb[k]
        if da != db or sa != sb:
            return '%s (dtype/shape %s%r != %s%r)' % (k, da, sa, db, sb)
        if ba != bb:
            if not bitwise and np.dtype(da).kind in 'fiub':
                x, y = np.frombuffer(ba, dtype=np.dtype(da)), np.frombuffer(bb, dtype=np.dtype(db))
                if np.array_equal(x, y):
                    continue
            return k
    for k in fb:
        if k not in fa:
            return k + ' (extra)'
    return None


class Ledger:
    """keeps live references to everything the calls of a case returned (and were given) together with a frozen copy;
    verify() re-reads the live objects and demands bit-for-bit identity"""

    def __init__(self):
        self.items = []          # [name, live, frozen]

    def add(self, name, out):
        self.items.append([name, out, freeze(out)])
        return out

    def forget(self, out):
        self.items = [it for it in self.items if it[1] is not out]

    def refresh(self, out):
        for it in self.items:
            if it[1] is out:
                it[2] = freeze(out)

    def verify(self, after, what=''):
        for name, live, fr in self.items:
            k = first_difference(fr, freeze(live))
            if k is not None:
                raise Violation('%s: %s changed after %s: %s is no longer bit-for-bit what it was (a returned / handed-in '
                                'object shares state with a later call)' % (what, name, after, k))


def share_memory(out_a, out_b):
    """name pair of two arrays of two return values / systems that share memory (None: none do)"""
    A, B = out_arrays(out_a), out_arrays(out_b)
    for ka, a in A.items():
        if a.dtype.kind == 'U' or a.size == 0:
            continue
        for kb, b in B.items():
            if b.dtype.kind == 'U' or b.size == 0:
                continue
            if np.shares_memory(a, b):
                return ka, kb
    return None


# ----------------------------------------------------------------------------- A / B: operations after the judged call
#
#   again     the judged call repeated with fresh argument objects: equal (values, dtypes, shapes) to the first answer, and a
#             different object that shares no memory with it
#   twin      the same call, same arguments, on ANOTHER system of the same shape (same number of atoms, other numbers):
#             a workspace keyed by shape is re-used here
#   other     another system operated on, and the operations of this property called on the same system with other arguments
#   mut_args  the caller overwrites in place the argument objects it handed in (vector-set array, tol list / array, smallshift)
#   mut_in    the caller changes the system the call was made on - positions shifted rigidly (in place / through the setters),
#             per-atom properties overwritten in place, cell re-defined through box_set(scale=True) - and calls again: the first
#             answer must not move, the new answer is judged against the changed system by the same oracle
#   mut_out   the caller overwrites in place everything the call returned (positions, properties, box through its setter, the
#             rotation): the system the call was made on must not move, and the call repeated gives the first answer again
POST_KINDS = ('again', 'twin', 'other', 'mut_args', 'mut_in', 'mut_in', 'mut_out', 'mut_out')
MUT_IN = {'full': ('pos_inplace', 'pos_prop', 'pos_scaled', 'props', 'box', 'pos_inplace'),
          'rigid': ('props', 'box'),
          'pure': ('props',),
          'fixed': ('props',)}
POST_T = (0.25, 0.5, 1.0 / 3.0)


def decode_post(b, level):
    """6 bytes -> one operation dict; level: 'full' | 'rigid' (centering: the site atom has to stay where it is) |
    'pure' (read-only / reduced-precision position arrays: no position is written) | 'fixed' (near-face cells, whose geometry
    is constructed: no new geometry)"""
    kind = POST_KINDS[b[0] % len(POST_KINDS)]
    if level == 'fixed' and kind == 'twin':
        kind = 'again'
    op = {'op': kind, 'k': b[1]}
    if kind == 'mut_in':
        hows = MUT_IN[level]
        op['how'] = hows[b[2] % len(hows)]
        op['t'] = [POST_T[x % 4] if x % 4 < 3 else round(0.05 + 0.9 * x / 256.0, 3) for x in b[3:6]]
    elif kind == 'mut_out':
        op['how'] = ('inplace', 'setters')[b[2] % 2]
    return op


# one draw of raw bytes per case ([0..5] units / property forms, [6] number of operations, [7..18] two operations): a fixed-size
# st.binary costs half of a list of integers and is uniform
_xbytes = st.binary(min_size=19, max_size=19)
_PLEN = (0, 1, 1, 0, 2, 0, 1, 0)
# NOTE on rates: Hypothesis fills the tail of about every second example with its simplest choices (all-zero bytes), so byte 0 always
# decodes to the plain case (no operation, no unit plan, int64 tags, float64 vectors) and the rates below are about twice the share wanted

# ----------------------------------------------------------------------------- D: working-unit configurations
UNIT_CFGS = (
    {'kind': 'named', 'units': {'length': 'nm'}},
    {'kind': 'named', 'units': {'length': 'pm', 'energy': 'J'}},
    {'kind': 'named', 'units': {'length': 'm', 'mass': 'kg'}},
    {'kind': 'seed', 'seed': 12345},
    {'kind': 'SI'},
    {'kind': 'named', 'units': {'length': 'um', 'time': 'ns', 'charge': 'C'}},
    {'kind': 'seed', 'seed': 7},
    {'kind': 'named', 'units': {'length': 'cm', 'mass': 'g', 'energy': 'erg'}},
)


def apply_units(uc, cfg):
    if cfg['kind'] == 'named':
        uc.reset_units(**cfg['units'])
    elif cfg['kind'] == 'seed':
        uc.reset_units(seed=int(cfg['seed']))
    else:
        uc.reset_units(seed='SI')


def restore_units(uc):
    uc.reset_units(length='angstrom', mass='amu', energy='eV', charge='e')


def cfg_text(cfg):
    if cfg['kind'] == 'named':
        return 'reset_units(%s)' % ', '.join('%s=%r' % kv for kv in sorted(cfg['units'].items()))
    return 'reset_units(seed=%r)' % ('SI' if cfg['kind'] == 'SI' else cfg['seed'])


# ----------------------------------------------------------------------------- C / F: per-atom property forms
TAG_FORMS = ('int',) * 5 + ('i1', 'i2', 'u1', 'u2', 'i8max', 'i8min', '>i4', 'u4', 'i1min')
VEC_FORMS = ('f8',) * 5 + ('f4', 'decades', 'decades', 'f4decades', '>f8')
_TAG_SPEC = {'i1': ('i1', 'max'), 'i2': ('i2', 'max'), 'u1': ('u1', 'max'), 'u2': ('u2', 'max'), 'i8max': ('i8', 'max'),
             'i8min': ('i8', 'min'), '>i4': ('>i4', 'max'), 'u4': ('u4', 'max'), 'i1min': ('i1', 'min')}
DECADES = (-9, 8, -4, 3, 0, 6, -7, 1, -2, 5, -9, 8)


def tag_array(n, form):
    """n consecutive tags.  'int': 0..n-1 (int64); otherwise the n (<= 20) values end at the upper limit of the dtype / start at its
    lower limit; the first one is a multiple of 12, so that tag // k (k = 1, 2, 3, 4 centering copies) still names the motif atom"""
    if form == 'int':
        return np.arange(n, dtype=int)
    dt, end = _TAG_SPEC[form]
    info = np.iinfo(np.dtype(dt))
    if n > 20:
        raise HarnessError('tag_array: %d atoms' % n)
    if end == 'max':
        base = ((int(info.max) - 20) // 12) * 12
    else:
        base = -((-int(info.min)) // 12) * 12
    return np.array([base + i for i in range(n)], dtype=np.dtype(dt))


def vec_array(vec, form, group=1):
    """group: consecutive rows that have to stay equal (the centering copies of one motif atom) get the same decade"""
    v = np.array(vec, dtype=float).reshape(-1, 3)
    if 'decades' in form:
        v = v * np.array([10.0 ** DECADES[(i // group) % len(DECADES)] for i in range(len(v))])[:, None]
    if form.startswith('f4'):
        return v.astype(np.float32)
    if form == '>f8':
        return v.astype('>f8')
    return v


def extras(draw, u, level='full'):
    """-> dict of the optional case fields 'post', 'units', 'props' (a plain function of the caller's draw)"""
    xb = draw(_xbytes)
    n = _PLEN[xb[6] % len(_PLEN)]
    post = [decode_post(xb[7 + 6 * i:13 + 6 * i], level) for i in range(n)]
    units = None
    if not u.get('whole') and xb[0] % 7 == 1:
        units = {'cfg': UNIT_CFGS[xb[1] % len(UNIT_CFGS)], 'pre': bool(xb[2] % 3)}
    return {'post': post, 'units': units,
            'props': {'tag': TAG_FORMS[xb[3] % len(TAG_FORMS)], 'vec': VEC_FORMS[xb[4] % len(VEC_FORMS)]}}


# ----------------------------------------------------------------------------- C: integer matrices / multipliers in every dtype
UVWS_NARROW = ('int8', 'int16', 'uint8', 'uint16', 'bigend', 'bigend2', 'f32', 'f16', 'bool', 'uint64')


def uvws_narrow(uvws, form):
    """the integer matrix in a narrow / unsigned / big-endian / bool / reduced-precision dtype (entries are at most 10 in size);
    unsigned and bool fall back to int8 when the matrix does not fit"""
    a = np.array(uvws, dtype=np.int64)
    if form in ('uint8', 'uint16', 'uint64'):
        return a.astype(form) if a.min() >= 0 else a.astype(np.int8)
    if form == 'bool':
        return a.astype(bool) if (a.min() >= 0 and a.max() <= 1) else a.astype(np.int8)
    dt = {'int8': 'i1', 'int16': 'i2', 'bigend': '>i4', 'bigend2': '>i2', 'f32': 'f4', 'f16': 'f2'}[form]
    return a.astype(dt)


def uvws_noisy(uvws, seed):
    """class E: the integers as a floating-point computation leaves them: each entry off by a relative 1e-15 .. 1e-10 (zeros: absolute),
    either side - far inside the rounding window of rotate (numpy.allclose at its defaults, 1e-8 absolute + 1e-5 relative)"""
    a = np.array(uvws, dtype=float)
    out = a.copy()
    k = 0
    for i in range(a.shape[0]):
        for j in range(a.shape[1]):
            h = (seed * 2654435761 + (k + 1) * 40503) % 1000003
            e = 10.0 ** (-15 + (h % 6)) * (1.0 if (h // 6) % 2 else -1.0)
            out[i, j] = a[i, j] * (1.0 + e) if a[i, j] else e
            k += 1
    return out


SIZE_NARROW = ('np8', 'np16', 'npu8', 'npu16', 'npu64')


def size_scalar(v, form):
    """a multiplier as a numpy integer scalar of another width; unsigned for v >= 0 only (else the signed type of the same width)"""
    if form == 'np8':
        return np.int8(v)
    if form == 'np16':
        return np.int16(v)
    if form == 'npu8':
        return np.uint8(v) if v >= 0 else np.int8(v)
    if form == 'npu16':
        return np.uint16(v) if v >= 0 else np.int16(v)
    if form == 'npu64':
        return np.uint64(v) if v >= 0 else np.int64(v)
    raise HarnessError('size form %r' % (form,))


# whole-number cells: integer position / box arrays of other widths (values checked to fit)
INT_NARROW = {'int32': 'i4', 'int16': 'i2', 'uint': 'u4', 'intbe': '>i8', 'int8': 'i1'}


def int_narrow(x, form):
    """whole-number array x in the dtype named by form; falls back to int64 when a value does not fit"""
    xi = np.rint(np.asarray(x, dtype=float)).astype(np.int64)
    if not np.array_equal(xi.astype(float), np.asarray(x, dtype=float)):
        raise HarnessError('integer form for values that are not whole numbers')
    dt = np.dtype(INT_NARROW[form])
    info = np.iinfo(dt)
    if xi.size and (xi.min() < info.min or xi.max() > info.max):
        return xi
    return xi.astype(dt)


# ----------------------------------------------------------------------------- G: exactly structured cells
PERMS = ((0, 1, 2), (1, 2, 0), (2, 0, 1), (0, 2, 1), (2, 1, 0), (1, 0, 2))


def sym_of(b0, b1, b2, rows_allowed, improper_allowed):
    """-> {'rows': perm, 'cols': perm, 'sg': signs}: the cell vectors relabelled (rows) and the Cartesian axes exactly permuted and
    reversed (cols, sg).  rows_allowed=False keeps a, b, c (hexagonal indices, family checks); improper_allowed=False keeps the
    handedness (the x axis is reversed once more if needed)"""
    rows = PERMS[b0 % 6] if rows_allowed else PERMS[0]
    cols = PERMS[b1 % 6]
    sg = [1 if (b2 >> i) & 1 else -1 for i in range(3)]
    if b0 % 3 == 0:
        # a third: the cell stays lower triangular, with negative diagonal entries ("already in normal form" shortcuts)
        rows = cols = PERMS[0]
        if min(sg) > 0:
            sg[b1 % 3] = -1
    elif b0 % 3 == 1 and rows_allowed:
        # a third: upper triangular (vectors and axes both reversed in order), any signs
        rows = cols = PERMS[4]
    if not improper_allowed:
        par = 1
        for p in (rows, cols):
            par *= 1 if PERMS.index(tuple(p)) < 3 else -1
        if par * sg[0] * sg[1] * sg[2] < 0:
            sg[0] = -sg[0]
    return {'rows': list(rows), 'cols': list(cols), 'sg': sg}


def apply_sym(V, sym):
    """exact: no arithmetic but sign changes"""
    V2 = V[sym['rows']][:, sym['cols']]
    return V2 * np.array(sym['sg'], dtype=float)[None, :]


# ----------------------------------------------------------------------------- E: cells next to a more symmetric family
ALMOST_EXP = (-12, -11, -10, -9, -8, -7, -6, -5, -4, -3)


def almost_of(bs, small):
    """6 bytes -> [e_a, e_b, e_c, e_alpha, e_beta, e_gamma]: relative changes of the lengths and changes of the angles in radians,
    each 0 or +-10^k, k in -12..-3 (small=True: k <= -9, for cases in which a tolerance of the code under test decides the family)"""
    out = []
    for x in bs:
        if x % 3 == 0:
            out.append(0.0)
            continue
        exps = ALMOST_EXP[:4] if small else ALMOST_EXP
        e = 10.0 ** exps[(x // 3) % len(exps)]
        out.append(e if (x // 64) % 2 else -e)
    if not any(out):
        out[0] = 1e-9 if small else 1e-6
    return out
