"""Hypothesis strategies for C09 (unit expressions, working-unit configurations, values).  JSON-able output only.

Expression ASTs are described in pbt/oracles/unitexpr.py.  All strategy objects are built once at module level.
"""
import itertools

from hypothesis import strategies as st

from .oracles import unitexpr as ux

try:                                     # names must exist in the installed numericalunits (pinned); never atomman here
    import numericalunits as _nu
    _known = lambda n: isinstance(getattr(_nu, n, None), float)
except Exception:                        # pragma: no cover
    _known = lambda n: True

COMMON = [n for n in ('m cm nm angstrom um mm pm aBohr kg g amu mg pg s ms us ns ps fs J eV erg kcal kJ meV Ry mJ '
                      'N dyn nN pN Pa bar GPa MPa atm kbar C e mC V mV K Hz GHz THz W mol hbar').split() if _known(n)]
ALL_DIM = [n for n in sorted(ux.DIM) if _known(n)]
EXOTIC = [n for n in ('Å ħ Ω kΩ GΩ c0 eps0 mu0 g0 Z0 Phi0 ε0 μ0 σSB αFS astro_unit horsepower_metric horsepower_imperial '
                      'GHz·2π Hz·2π rpm·2π kB Rgas sigmaSB Rinf debye uBohr').split() if _known(n)]
EXOTIC_DIM = [n for n in EXOTIC if n in ux.DIM]

LITS = ['2', '3', '10', '0.5', '1e-3', '1.5', '.5', '2.', '1E3', '1e+2', '0.25', '100', '7', '1', '4.184', '.25e1', '1e-18', '6.02e23']
EXPS = ['2', '2', '-1', '-2', '3', '0.5', '-0.5', '1', '0', '-3', '2.0', '1.5', '-.5', '1e0', '-1.0', '4']
EXPS_INT = ['2', '2', '-1', '-2', '3', '1', '-3', '2.0', '-1.0']
# near-threshold literals (class E): exponents 1e-13 ... 1e-3 away from a whole number / a half / zero, numeric factors that far
# from one: a helper that "recognises" whole-number powers or unit factors with a tolerance changes the value by far more than
# the 1e-12 of the oracles (m^2.000001 differs from m^2 by 2e-5 under angstrom working units)
EXPS_NEAR = ['2.000001', '1.9999999', '0.9999999', '1.0000000001', '-1.000001', '-0.99999999', '3.00001', '2.0000000000001',
             '0.4999999', '0.500001', '-2.0001', '1e-9', '-1e-7', '1.001', '0.999', '1e-4']
LITS_NEAR = ['1.0000001', '0.99999999', '1.000000000001', '1.00001', '0.9999', '1.001', '0.999999999999', '1.0000000000001',
             '2.0000001', '9.9999999', '1e-12', '0.50000001']
XQ_NEAR = [('1000001', '1000000'), ('999999', '1000000'), ('2000001', '1000000'), ('-999999', '1000000'), ('1000000001', '2000000000')]
WS = ['', '', '', '', ' ', ' ', '  ', '\t', '\n', '\r', ' \t', '\r\n', '\n  ', '\t\t']
WS_SPACES = ['', '', '', ' ', ' ', '  ', '   ']

S_NAME_ANY = st.one_of(st.sampled_from(COMMON), st.sampled_from(COMMON), st.sampled_from(COMMON),
                       st.sampled_from(ALL_DIM), st.sampled_from(EXOTIC))
S_NAME_DIM = st.one_of(st.sampled_from(COMMON), st.sampled_from(COMMON), st.sampled_from(ALL_DIM), st.sampled_from(EXOTIC_DIM))
# (one_of drops repeated strategy OBJECTS, so the weights need distinct objects)
S_LIT = st.one_of([st.sampled_from(LITS) for _ in range(7)] + [st.sampled_from(LITS_NEAR)])
S_EXPLIT = st.one_of([st.sampled_from(EXPS) for _ in range(6)] + [st.sampled_from(EXPS_NEAR)])
S_EXPLIT_INT = st.sampled_from(EXPS_INT)
S_NFACT = st.sampled_from([1, 1, 2, 2, 2, 3, 3, 3, 4, 5])
S_NFACT_IN = st.sampled_from([1, 2, 2, 2, 3, 3])
S_OPS = {n: st.text(alphabet='*/', min_size=n, max_size=n) for n in range(0, 6)}
S_KIND = {True: st.sampled_from('uuuuuunngg'), False: st.sampled_from('uuuuun')}
S_XKIND = st.sampled_from(['none', 'none', 'none', 'none', 'none', 'x', 'x', 'x', 'x', 'xp', 'xq'])
S_XQ = st.one_of([st.sampled_from([('1', '2'), ('3', '2'), ('-1', '2'), ('1', '3'), ('2', '1'), ('-2', '4')]) for _ in range(5)]
                 + [st.sampled_from(XQ_NEAR)])
S_WS = st.lists(st.sampled_from(WS), min_size=0, max_size=7)
S_WS_SP = st.lists(st.sampled_from(WS_SPACES), min_size=0, max_size=5)
S_BOOL = st.booleans()


def _exponent(draw, intonly=False):
    k = draw(S_XKIND)
    if k == 'none':
        return None
    if k == 'xq' and not intonly:
        a, b = draw(S_XQ)
        return ['xq', a, b]
    lit = draw(S_EXPLIT_INT if intonly else S_EXPLIT)
    return [k if k != 'xq' else 'xp', lit]


def _factor(draw, depth, names, intonly):
    k = draw(S_KIND[depth > 0])
    if k == 'u':
        return ['u', draw(names), _exponent(draw, intonly)]
    if k == 'n':
        return ['n', draw(S_LIT), _exponent(draw, intonly)]
    return ['g', _expr(draw, depth - 1, names, intonly, inner=True), _exponent(draw, intonly)]


def _expr(draw, depth, names, intonly=False, inner=False):
    nf = draw(S_NFACT_IN if inner else S_NFACT)
    fs = [_factor(draw, depth, names, intonly) for _ in range(nf)]
    return ['E', fs, draw(S_OPS[nf - 1])]


@st.composite
def exprs(draw, depth=4, dim_only=False, intonly=False):
    """expression AST with group nesting <= depth"""
    return _expr(draw, depth, S_NAME_DIM if dim_only else S_NAME_ANY, intonly)


# ----------------------------------------------------------------------------- working-unit configurations

QUANT = ('length', 'mass', 'time', 'energy', 'charge')
NAMED_QUICK = {'length': ['angstrom', 'nm', 'm'], 'mass': ['amu', 'kg', 'g'], 'time': ['ps', 's', 'fs'],
               'energy': ['eV', 'J', 'kcal'], 'charge': ['e', 'C', 'mC']}
NAMED_MORE = {'length': ['angstrom', 'nm', 'm', 'cm', 'aBohr'], 'mass': ['amu', 'kg', 'g', 'mg', 'me'],
              'time': ['ps', 's', 'fs', 'ns', 'us'], 'energy': ['eV', 'J', 'kcal', 'erg', 'Ry'],
              'charge': ['e', 'C', 'mC', 'nC', 'uC']}
OVERDETERMINED = frozenset(('length', 'mass', 'time', 'energy'))
SUBSETS = [c for r in range(1, 5) for c in itertools.combinations(QUANT, r) if frozenset(c) != OVERDETERMINED]
assert len(SUBSETS) == 29

S_SUBSET = st.sampled_from(SUBSETS)
S_QNAME = {q: st.sampled_from(NAMED_MORE[q]) for q in QUANT}
S_SEED = st.integers(0, 2 ** 31 - 1)


def orders_of(sub):
    """every order in which the keywords of a choice can be passed; canonical (length, mass, time, energy, charge) first,
    its reverse last"""
    canon = tuple(q for q in QUANT if q in sub)
    perms = [list(p) for p in itertools.permutations(canon)]
    rev = list(reversed(canon))
    if len(perms) > 1:
        perms.remove(rev)
        perms.append(rev)
    return perms


# reset_units(**choice) receives its keywords in a drawn order ('order' lists the quantities; the case is dumped with sorted
# keys, so the order cannot live in the dict itself)
S_ORDER = {sub: st.sampled_from(orders_of(sub)) for sub in SUBSETS}


@st.composite
def named_cfgs(draw):
    sub = draw(S_SUBSET)
    return {'kind': 'named', 'units': {q: draw(S_QNAME[q]) for q in sub}, 'order': draw(S_ORDER[sub])}


_DEFAULT_UNITS = {'length': 'angstrom', 'mass': 'amu', 'energy': 'eV', 'charge': 'e'}
S_CFG = st.one_of(st.builds(lambda s: {'kind': 'seed', 'seed': s}, S_SEED),
                  st.builds(lambda s: {'kind': 'seed', 'seed': s}, S_SEED),
                  named_cfgs(), named_cfgs(),
                  st.just({'kind': 'SI'}),
                  st.builds(lambda o: {'kind': 'named', 'units': dict(_DEFAULT_UNITS), 'order': o},
                            S_ORDER[('length', 'mass', 'energy', 'charge')]))
S_CFG_NOT_SI = st.one_of(st.builds(lambda s: {'kind': 'seed', 'seed': s}, S_SEED), named_cfgs())


# ----------------------------------------------------------------------------- values

S_MAG = st.sampled_from([1.0, 1.0, 1.0, 1e-3, 1e3, 1e-9, 1e9, 1e-20, 1e20])
S_F = st.floats(min_value=-1000.0, max_value=1000.0, allow_nan=False, allow_infinity=False,
               allow_subnormal=False).map(lambda v: v if abs(v) >= 1e-6 else 0.0)      # no denormal-range products
S_I = st.integers(-1000, 1000)


@st.composite
def scalars(draw):
    k = draw(st.integers(0, 9))
    if k == 0:
        return draw(S_I)
    if k == 1:
        return draw(st.sampled_from([0.0, 1.0, -1.0, 0.1, 1e-10]))
    return draw(S_F) * draw(S_MAG)


@st.composite
def values(draw):
    """{'v': nested list or scalar, 'as': 'py'|'array'|'tuple'|'intarray'}"""
    shape = draw(st.sampled_from(['0', '0', '0', '1', '1', '2', '3', 'empty']))
    if shape == '0':
        return {'v': draw(scalars()), 'as': draw(st.sampled_from(['py', 'py', 'array']))}
    if shape == 'empty':
        return {'v': [], 'as': draw(st.sampled_from(['py', 'array']))}
    if draw(st.integers(0, 5)) == 0:
        # integer-typed container
        n = draw(st.integers(1, 4))
        return {'v': [draw(S_I) for _ in range(n)], 'as': draw(st.sampled_from(['py', 'intarray', 'tuple']))}
    mag = draw(S_MAG)
    el = lambda: draw(S_F) * mag
    if shape == '1':
        v = [el() for _ in range(draw(st.integers(1, 5)))]
    elif shape == '2':
        n, m = draw(st.integers(1, 3)), draw(st.integers(1, 3))
        v = [[el() for _ in range(m)] for _ in range(n)]
    else:
        v = [[[el() for _ in range(2)] for _ in range(2)] for _ in range(draw(st.integers(1, 2)))]
    return {'v': v, 'as': draw(st.sampled_from(['py', 'array', 'array', 'tuple']))}


# ----------------------------------------------------------------------------- clause strategies

@st.composite
def precedence_cases(draw):
    return {'cfg': draw(S_CFG), 'ast': _expr(draw, 4, S_NAME_ANY), 'ws': draw(S_WS)}


@st.composite
def identity_cases(draw):
    mode = draw(st.sampled_from(['units', 'units', 'units', 'units', 'literal', 'literal', 'none', 'scaled']))
    case = {'cfg': draw(S_CFG), 'mode': mode, 'value': draw(values())}
    if mode in ('units', 'literal'):
        case['ast'] = _expr(draw, 3, S_NAME_ANY)
        case['ws'] = draw(S_WS)
        if mode == 'literal':
            case['sep'] = draw(st.sampled_from([' ', ' ', '  ', ' \t']))
            case['nounit'] = draw(st.integers(0, 7)) == 0
    return case


S_SUBST = st.sampled_from(['same', 'member', 'member', 'member', 'member', 'expand', 'expand'])
S_IDX = st.integers(0, 10 ** 6)


def _member(draw, cls):
    mem = [n for n in ux.MEMBERS[cls] if _known(n)]
    return mem[draw(S_IDX) % len(mem)]


def _substitute(draw, E, depth=0):
    """same-dimension rewrite of E: each unit replaced by a member of its class or by an expansion through other classes"""
    fs = []
    for F in E[1]:
        if F[0] == 'u':
            cls = ux.CLASS_OF[F[1]]
            how = draw(S_SUBST)
            if how == 'expand' and cls in ux.EXPANSIONS and depth < 2:
                tmpl = ux.EXPANSIONS[cls][draw(S_IDX) % len(ux.EXPANSIONS[cls])]
                sub, ops = [], ''
                for j, (op, c, x) in enumerate(tmpl):
                    X = None if x is None else ['x', x]
                    sub.append(['n', c, X] if c == '1' else ['u', _member(draw, c), X])
                    if j:
                        ops += op
                inner = ['E', sub, ops]
                if draw(S_BOOL):
                    inner = _substitute(draw, inner, depth + 1)
                fs.append(['g', inner, F[2]])
            elif how == 'same':
                fs.append(['u', F[1], F[2]])
            else:
                fs.append(['u', _member(draw, cls), F[2]])
        elif F[0] == 'n':
            fs.append(['n', F[1], F[2]])
        else:
            fs.append(['g', _substitute(draw, F[1], depth), F[2]])
    return ['E', fs, E[2]]


@st.composite
def invariance_cases(draw):
    A = _expr(draw, 2, S_NAME_DIM)
    B = _substitute(draw, A)
    cfgs = [draw(S_CFG), draw(S_CFG_NOT_SI), draw(S_CFG)]
    x = draw(st.one_of(scalars(), st.lists(S_F, min_size=1, max_size=4)))
    return {'A': A, 'B': B, 'wsA': draw(S_WS), 'wsB': draw(S_WS), 'cfgs': cfgs, 'x': x}


# ----------------------------------------------------------------------------- histories of working-unit choices

NBATTERY = 64                    # upper bound of the fixed battery in checks/c09.py (mask bits)
S_HOP = st.sampled_from(['change'] * 6 + ['drop'] * 2 + ['add'] * 2 + ['reorder', 'seed', 'SI'])
S_HQ = st.sampled_from([0, 1, 2, 3, 3, 4, 4, 4])          # index into QUANT; energy and charge weighted
S_HMASK = st.one_of(st.just(-1), st.just(-1), st.integers(0, 2 ** NBATTERY - 1))
S_HN = st.integers(2, 7)
S_HNEXTRA = st.sampled_from([0, 1, 1, 2])
S_HX = st.one_of(st.sampled_from([1.0, 2.5, -3.0, 7]), S_F.filter(lambda v: v != 0.0), st.lists(S_F, min_size=1, max_size=3))
S_HSTART = st.one_of(named_cfgs(), named_cfgs(),
                     st.builds(lambda o: {'kind': 'named', 'units': dict(_DEFAULT_UNITS), 'order': o},
                               S_ORDER[('length', 'mass', 'energy', 'charge')]))


@st.composite
def history_cases(draw):
    """a start choice and a list of steps; each step is resolved by the oracle against the choice then in force so that
    consecutive named choices differ in exactly one quantity (changed name, dropped, added) - any sub-list is a valid walk"""
    start = draw(S_HSTART)
    steps = [{'op': draw(S_HOP), 'q': draw(S_HQ), 'name': draw(S_IDX), 'perm': draw(S_IDX), 'mask': draw(S_HMASK)}
             for _ in range(draw(S_HN))]
    extra = [{'ast': _expr(draw, 2, S_NAME_DIM), 'ws': draw(S_WS)} for _ in range(draw(S_HNEXTRA))]
    return {'start': start, 'mask': draw(S_HMASK), 'steps': steps, 'extra': extra, 'x': draw(S_HX)}


# ----------------------------------------------------------------------------- forms: storage forms, ledger, caller-side edits
#
# One case is a short sequence of calls in one process.  Every value is handed over in a drawn STORAGE FORM (dtype x layout),
# with drawn structure (one magnitude / one magnitude per element over 60 decades / near-threshold / exact halves), under a
# unit expression that is random, exactly the working unit (factor one) or a hair away from it; after each call the caller may
# overwrite what it handed in or what it got back, or hand the result on to the next call; working units may be reset between
# calls.  The oracle keeps everything that was returned in a ledger and re-judges it bit for bit after every later call.

FLOAT_DT = ['f8', 'f8', 'f8', 'f8', 'list', 'list', 'tuple', '>f8']
INT_DT = ['i1', 'i1', 'i2', 'i4', 'i8', 'u1', 'u1', 'u2', 'u4', 'u8', 'u8', '>i2', '>i4', '>i8', '>u2', '>u8', '?', '?', 'ilist']
NARROWF_DT = ['f4', 'f4', 'f2', 'f2', '>f4', '>f2']
INT_RANGE = {'i1': (-2 ** 7, 2 ** 7 - 1), 'i2': (-2 ** 15, 2 ** 15 - 1), 'i4': (-2 ** 31, 2 ** 31 - 1), 'i8': (-2 ** 63, 2 ** 63 - 1),
             'u1': (0, 2 ** 8 - 1), 'u2': (0, 2 ** 16 - 1), 'u4': (0, 2 ** 32 - 1), 'u8': (0, 2 ** 64 - 1), '?': (0, 1),
             'ilist': (-2 ** 63, 2 ** 63 - 1)}
LAYOUT_1D = ['c', 'c', 'ro', 'strided', 'neg']
LAYOUT_2D = ['c', 'ro', 'strided', 'neg', 'F', 'F', 'T', 'T']
LAYOUT_0D = ['scalar', 'scalar', 'a0']

S_FAMILY = st.sampled_from(['float'] * 5 + ['int'] * 4)
S_FAMILY_NF = st.sampled_from(['float'] * 2 + ['int'] * 1 + ['narrowf'] * 6)
S_FLOAT_DT = st.sampled_from(FLOAT_DT)
S_INT_DT = st.sampled_from(INT_DT)
S_NARROWF_DT = st.sampled_from(NARROWF_DT)
S_LAYOUT = {0: st.sampled_from(LAYOUT_0D), 1: st.sampled_from(LAYOUT_1D), 2: st.sampled_from(LAYOUT_2D)}
S_FSHAPE = st.sampled_from([(), (), (1,), (2,), (3,), (4,), (5,), (5,), (1, 3), (2, 2), (2, 3), (3, 1), (3, 3)])
S_STRUCT = st.sampled_from(['plain', 'plain', 'plain', 'decades', 'decades', 'decades', 'near', 'near', 'halves'])
S_DECADE = st.integers(-30, 30)
S_NEAR_BASE = st.sampled_from([1.0, 1.0, 2.0, 3.0, -1.0, 0.5, -0.5, 10.0, 1000.0, 0.25, 7.0])
S_NEAR_DELTA = st.sampled_from([1e-12, -1e-12, 1e-10, 1e-9, -1e-9, 1e-7, 1e-6, -1e-6, 1e-4, 1e-3, -1e-3, 3e-16])
S_NEAR_ZERO = st.sampled_from([1e-12, -1e-12, 1e-9, 1e-15, 1e-30, -1e-20, 1e-100, 0.0, -0.0])
S_HALF = st.sampled_from([0.5, -0.5, 1.5, 0.25, 2.0, 4.0, -8.0, 1024.0, 0.0, -0.0, 1.0, -1.0, 3.0, 0.125, 2.0 ** 40, 2.0 ** -40, 1e15, -2.5])
S_K8 = st.integers(-2000, 2000)
S_E4 = st.integers(-20, 20)
S_E2 = st.integers(-3, 4)
S_LIMIT = st.integers(0, 9)
S_INTS = {dt: st.integers(lo, hi) for dt, (lo, hi) in INT_RANGE.items()}
S_SMALLINT = st.integers(-100, 100)


def _int_elem(draw, dt):
    """an integer from the whole range of the dtype: 40 % within 2 of a limit, 30 % anywhere, 30 % small"""
    dt = dt.lstrip('>')
    lo, hi = INT_RANGE[dt]
    k = draw(S_LIMIT)
    if k < 4:
        return [lo, hi, lo + 1, hi - 1][k] if hi - lo > 2 else [lo, hi][k % 2]
    if k < 7:
        return draw(S_INTS[dt])
    return min(hi, max(lo, draw(S_SMALLINT)))


def _float_elems(draw, n, struct):
    if struct == 'plain':
        mag = draw(S_MAG)
        return [draw(S_F) * mag for _ in range(n)]
    if struct == 'decades':
        # every element with a magnitude of its own, 10^-30 ... 10^30 (x up to 1000): one array over up to 66 decades
        return [(draw(S_F) or 1.0) * 10.0 ** draw(S_DECADE) for _ in range(n)]
    if struct == 'near':
        out = []
        for _ in range(n):
            out.append(draw(S_NEAR_BASE) * (1.0 + draw(S_NEAR_DELTA)) if draw(S_BOOL) or draw(S_BOOL) else draw(S_NEAR_ZERO))
        return out
    return [draw(S_HALF) for _ in range(n)]


def _nest(flat, shape):
    if len(shape) == 0:
        return flat[0]
    if len(shape) == 1:
        return list(flat)
    m = shape[1]
    return [list(flat[i * m:(i + 1) * m]) for i in range(shape[0])]


def _form_value(draw, narrowf):
    fam = draw(S_FAMILY_NF if narrowf else S_FAMILY)
    shape = draw(S_FSHAPE)
    n = 1
    for s in shape:
        n *= s
    if fam == 'float':
        dt = draw(S_FLOAT_DT)
        struct = draw(S_STRUCT)
        flat = _float_elems(draw, n, struct)
    elif fam == 'int':
        dt = draw(S_INT_DT)
        struct = 'int'
        flat = [_int_elem(draw, dt) for _ in range(n)]
        if dt == '?':
            flat = [bool(v) for v in flat]
    else:
        dt = draw(S_NARROWF_DT)
        struct = 'narrowf'
        # exactly representable in the narrow type: k/8 * 2^e with |k| <= 2000 (11 bits)
        se = S_E2 if dt.endswith('f2') else S_E4
        flat = [draw(S_K8) / 8.0 * 2.0 ** draw(se) for _ in range(n)]
    if dt in ('list', 'tuple', 'ilist'):
        layout = 'py'
        if dt == 'ilist':
            dt = 'list'
    else:
        layout = draw(S_LAYOUT[len(shape)])
    return {'v': _nest(flat, shape), 'dt': dt, 'layout': layout, 'struct': struct}


S_WEXP = st.sampled_from([None, None, None, '2', '-1', '3', '-2', '0.5', '1'])
S_WN = st.sampled_from([1, 1, 2, 2, 3])
SI_NAMES = ['m', 'kg', 's', 'C', 'J', 'N', 'Pa', 'V', 'W', 'A', 'Hz']
S_LIT_NEAR1 = st.sampled_from([l for l in LITS_NEAR if abs(float(l) - 1.0) < 2e-3])
S_UKIND = st.sampled_from(['random', 'random', 'random', 'working', 'working', 'working', 'near_working', 'near_working', 'none', 'scaled'])


def _working_expr(draw, cfg, near):
    """a monomial in the units that ARE the working units of cfg (value one to rounding); for a random seed, where no name is
    one, a quotient x/x; near: times a literal 1e-13 ... 1e-3 away from one"""
    if cfg['kind'] == 'named':
        names = [cfg['units'][q] for q in QUANT if q in cfg['units']]
    elif cfg['kind'] == 'SI':
        names = SI_NAMES
    else:
        names = None
    if names is None:
        nm = draw(S_NAME_DIM)
        x = draw(S_WEXP)
        X = None if x is None else ['x', x]
        fs, ops = [['u', nm, X], ['u', nm, X]], '/'
    else:
        k = draw(S_WN)
        fs = []
        for _ in range(k):
            x = draw(S_WEXP)
            fs.append(['u', names[draw(S_IDX) % len(names)], None if x is None else ['x', x]])
        ops = draw(S_OPS[k - 1])
    if near:
        fs = [['n', draw(S_LIT_NEAR1), None]] + fs
        ops = '*' + ops
    return ['E', fs, ops]


def _form_unit(draw, cfg):
    k = draw(S_UKIND)
    if k in ('none', 'scaled'):
        return {'kind': k}
    if k == 'random':
        return {'kind': 'expr', 'ast': _expr(draw, 1, S_NAME_ANY), 'ws': draw(S_WS)}
    return {'kind': 'expr', 'ast': _working_expr(draw, cfg, k == 'near_working'), 'ws': draw(S_WS_SP)}


S_FOP = st.sampled_from(['set'] * 5 + ['get'] * 3 + ['lit', 'style', 'style', 'reset', 'reset'])
S_FPOST = st.sampled_from(['none', 'none', 'mut_out', 'mut_out', 'mut_in', 'mut_in', 'mut_both'])
S_FN = st.integers(2, 6)
S_STYLE = st.sampled_from(['lj', 'real', 'metal', 'si', 'cgs', 'electron', 'micro', 'nano'])
S_EDIT = st.sampled_from(['none', 'none', 'set', 'set', 'del', 'clear', 'add'])
S_NARROWF_CASE = st.sampled_from([False] * 5 + [True])
S_PREV = st.sampled_from([False, False, False, True])
S_WHICH = st.sampled_from([0, 0, 1])


@st.composite
def forms_cases(draw):
    cfg = draw(S_CFG)
    narrowf = draw(S_NARROWF_CASE)
    steps = []
    cur = cfg
    styles = [draw(S_STYLE), draw(S_STYLE)]          # two styles per case, so that a style is asked for again after other calls
    for _ in range(draw(S_FN)):
        op = draw(S_FOP)
        if op == 'reset':
            cur = draw(S_CFG)
            steps.append({'op': 'reset', 'cfg': cur})
        elif op == 'style':
            steps.append({'op': 'style', 'style': styles[draw(S_WHICH)], 'edit': draw(S_EDIT), 'k': draw(S_IDX)})
        elif op == 'lit':
            n = draw(st.integers(0, 4))
            struct = draw(S_STRUCT)
            flat = _float_elems(draw, max(n, 1), struct)
            u = _form_unit(draw, cur)
            steps.append({'op': 'lit', 'v': flat[0] if n == 0 else flat, 'struct': struct, 'unit': u, 'sep': draw(st.sampled_from([' ', ' ', '  ']))})
        else:
            steps.append({'op': op, 'value': _form_value(draw, narrowf), 'unit': _form_unit(draw, cur), 'post': draw(S_FPOST),
                          'prev': draw(S_PREV), 'fill': draw(S_F)})
    return {'cfg': cfg, 'narrowf': narrowf, 'steps': steps}
