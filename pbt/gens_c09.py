"""Hypothesis strategies for C09 (unit expressions, working-unit configurations, values).  JSON-able output only.

Expression ASTs are described in pbt/oracles/unitexpr.py.  All strategy objects are built once at module level.
"""
import itertools

from hypothesis import strategies as st

from .oracles import unitexpr as ux

try:                                     # names must exist in the installed numericalunits (pinned); never atomman here
    import numericalunits as _nu
    _known = lambda n: isinstance(getattr(_nu, n, None), float)
except Exception:                        # pragma: no cover
    _known = lambda n: True

COMMON = [n for n in ('m cm nm angstrom um mm pm aBohr kg g amu mg pg s ms us ns ps fs J eV erg kcal kJ meV Ry mJ '
                      'N dyn nN pN Pa bar GPa MPa atm kbar C e mC V mV K Hz GHz THz W mol hbar').split() if _known(n)]
ALL_DIM = [n for n in sorted(ux.DIM) if _known(n)]
EXOTIC = [n for n in ('Å ħ Ω kΩ GΩ c0 eps0 mu0 g0 Z0 Phi0 ε0 μ0 σSB αFS astro_unit horsepower_metric horsepower_imperial '
                      'GHz·2π Hz·2π rpm·2π kB Rgas sigmaSB Rinf debye uBohr').split() if _known(n)]
EXOTIC_DIM = [n for n in EXOTIC if n in ux.DIM]

LITS = ['2', '3', '10', '0.5', '1e-3', '1.5', '.5', '2.', '1E3', '1e+2', '0.25', '100', '7', '1', '4.184', '.25e1', '1e-18', '6.02e23']
EXPS = ['2', '2', '-1', '-2', '3', '0.5', '-0.5', '1', '0', '-3', '2.0', '1.5', '-.5', '1e0', '-1.0', '4']
EXPS_INT = ['2', '2', '-1', '-2', '3', '1', '-3', '2.0', '-1.0']
WS = ['', '', '', '', ' ', ' ', '  ', '\t', '\n', '\r', ' \t', '\r\n', '\n  ', '\t\t']
WS_SPACES = ['', '', '', ' ', ' ', '  ', '   ']

S_NAME_ANY = st.one_of(st.sampled_from(COMMON), st.sampled_from(COMMON), st.sampled_from(COMMON),
                       st.sampled_from(ALL_DIM), st.sampled_from(EXOTIC))
S_NAME_DIM = st.one_of(st.sampled_from(COMMON), st.sampled_from(COMMON), st.sampled_from(ALL_DIM), st.sampled_from(EXOTIC_DIM))
S_LIT = st.sampled_from(LITS)
S_EXPLIT = st.sampled_from(EXPS)
S_EXPLIT_INT = st.sampled_from(EXPS_INT)
S_NFACT = st.sampled_from([1, 1, 2, 2, 2, 3, 3, 3, 4, 5])
S_NFACT_IN = st.sampled_from([1, 2, 2, 2, 3, 3])
S_OPS = {n: st.text(alphabet='*/', min_size=n, max_size=n) for n in range(0, 6)}
S_KIND = {True: st.sampled_from('uuuuuunngg'), False: st.sampled_from('uuuuun')}
S_XKIND = st.sampled_from(['none', 'none', 'none', 'none', 'none', 'x', 'x', 'x', 'x', 'xp', 'xq'])
S_XQ = st.sampled_from([('1', '2'), ('3', '2'), ('-1', '2'), ('1', '3'), ('2', '1'), ('-2', '4')])
S_WS = st.lists(st.sampled_from(WS), min_size=0, max_size=7)
S_WS_SP = st.lists(st.sampled_from(WS_SPACES), min_size=0, max_size=5)
S_BOOL = st.booleans()


def _exponent(draw, intonly=False):
    k = draw(S_XKIND)
    if k == 'none':
        return None
    if k == 'xq' and not intonly:
        a, b = draw(S_XQ)
        return ['xq', a, b]
    lit = draw(S_EXPLIT_INT if intonly else S_EXPLIT)
    return [k if k != 'xq' else 'xp', lit]


def _factor(draw, depth, names, intonly):
    k = draw(S_KIND[depth > 0])
    if k == 'u':
        return ['u', draw(names), _exponent(draw, intonly)]
    if k == 'n':
        return ['n', draw(S_LIT), _exponent(draw, intonly)]
    return ['g', _expr(draw, depth - 1, names, intonly, inner=True), _exponent(draw, intonly)]


def _expr(draw, depth, names, intonly=False, inner=False):
    nf = draw(S_NFACT_IN if inner else S_NFACT)
    fs = [_factor(draw, depth, names, intonly) for _ in range(nf)]
    return ['E', fs, draw(S_OPS[nf - 1])]


@st.composite
def exprs(draw, depth=4, dim_only=False, intonly=False):
    """expression AST with group nesting <= depth"""
    return _expr(draw, depth, S_NAME_DIM if dim_only else S_NAME_ANY, intonly)


# ----------------------------------------------------------------------------- working-unit configurations

QUANT = ('length', 'mass', 'time', 'energy', 'charge')
NAMED_QUICK = {'length': ['angstrom', 'nm', 'm'], 'mass': ['amu', 'kg', 'g'], 'time': ['ps', 's', 'fs'],
               'energy': ['eV', 'J', 'kcal'], 'charge': ['e', 'C', 'mC']}
NAMED_MORE = {'length': ['angstrom', 'nm', 'm', 'cm', 'aBohr'], 'mass': ['amu', 'kg', 'g', 'mg', 'me'],
              'time': ['ps', 's', 'fs', 'ns', 'us'], 'energy': ['eV', 'J', 'kcal', 'erg', 'Ry'],
              'charge': ['e', 'C', 'mC', 'nC', 'uC']}
OVERDETERMINED = frozenset(('length', 'mass', 'time', 'energy'))
SUBSETS = [c for r in range(1, 5) for c in itertools.combinations(QUANT, r) if frozenset(c) != OVERDETERMINED]
assert len(SUBSETS) == 29

S_SUBSET = st.sampled_from(SUBSETS)
S_QNAME = {q: st.sampled_from(NAMED_MORE[q]) for q in QUANT}
S_SEED = st.integers(0, 2 ** 31 - 1)


def orders_of(sub):
    """every order in which the keywords of a choice can be passed; canonical (length, mass, time, energy, charge) first,
    its reverse last"""
    canon = tuple(q for q in QUANT if q in sub)
    perms = [list(p) for p in itertools.permutations(canon)]
    rev = list(reversed(canon))
    if len(perms) > 1:
        perms.remove(rev)
        perms.append(rev)
    return perms


# reset_units(**choice) receives its keywords in a drawn order ('order' lists the quantities; the case is dumped with sorted
# keys, so the order cannot live in the dict itself)
S_ORDER = {sub: st.sampled_from(orders_of(sub)) for sub in SUBSETS}


@st.composite
def named_cfgs(draw):
    sub = draw(S_SUBSET)
    return {'kind': 'named', 'units': {q: draw(S_QNAME[q]) for q in sub}, 'order': draw(S_ORDER[sub])}


_DEFAULT_UNITS = {'length': 'angstrom', 'mass': 'amu', 'energy': 'eV', 'charge': 'e'}
S_CFG = st.one_of(st.builds(lambda s: {'kind': 'seed', 'seed': s}, S_SEED),
                  st.builds(lambda s: {'kind': 'seed', 'seed': s}, S_SEED),
                  named_cfgs(), named_cfgs(),
                  st.just({'kind': 'SI'}),
                  st.builds(lambda o: {'kind': 'named', 'units': dict(_DEFAULT_UNITS), 'order': o},
                            S_ORDER[('length', 'mass', 'energy', 'charge')]))
S_CFG_NOT_SI = st.one_of(st.builds(lambda s: {'kind': 'seed', 'seed': s}, S_SEED), named_cfgs())


# ----------------------------------------------------------------------------- values

S_MAG = st.sampled_from([1.0, 1.0, 1.0, 1e-3, 1e3, 1e-9, 1e9, 1e-20, 1e20])
S_F = st.floats(min_value=-1000.0, max_value=1000.0, allow_nan=False, allow_infinity=False,
               allow_subnormal=False).map(lambda v: v if abs(v) >= 1e-6 else 0.0)      # no denormal-range products
S_I = st.integers(-1000, 1000)


@st.composite
def scalars(draw):
    k = draw(st.integers(0, 9))
    if k == 0:
        return draw(S_I)
    if k == 1:
        return draw(st.sampled_from([0.0, 1.0, -1.0, 0.1, 1e-10]))
    return draw(S_F) * draw(S_MAG)


@st.composite
def values(draw):
    """{'v': nested list or scalar, 'as': 'py'|'array'|'tuple'|'intarray'}"""
    shape = draw(st.sampled_from(['0', '0', '0', '1', '1', '2', '3', 'empty']))
    if shape == '0':
        return {'v': draw(scalars()), 'as': draw(st.sampled_from(['py', 'py', 'array']))}
    if shape == 'empty':
        return {'v': [], 'as': draw(st.sampled_from(['py', 'array']))}
    if draw(st.integers(0, 5)) == 0:
        # integer-typed container
        n = draw(st.integers(1, 4))
        return {'v': [draw(S_I) for _ in range(n)], 'as': draw(st.sampled_from(['py', 'intarray', 'tuple']))}
    mag = draw(S_MAG)
    el = lambda: draw(S_F) * mag
    if shape == '1':
        v = [el() for _ in range(draw(st.integers(1, 5)))]
    elif shape == '2':
        n, m = draw(st.integers(1, 3)), draw(st.integers(1, 3))
        v = [[el() for _ in range(m)] for _ in range(n)]
    else:
        v = [[[el() for _ in range(2)] for _ in range(2)] for _ in range(draw(st.integers(1, 2)))]
    return {'v': v, 'as': draw(st.sampled_from(['py', 'array', 'array', 'tuple']))}


# ----------------------------------------------------------------------------- clause strategies

@st.composite
def precedence_cases(draw):
    return {'cfg': draw(S_CFG), 'ast': _expr(draw, 4, S_NAME_ANY), 'ws': draw(S_WS)}


@st.composite
def identity_cases(draw):
    mode = draw(st.sampled_from(['units', 'units', 'units', 'units', 'literal', 'literal', 'none', 'scaled']))
    case = {'cfg': draw(S_CFG), 'mode': mode, 'value': draw(values())}
    if mode in ('units', 'literal'):
        case['ast'] = _expr(draw, 3, S_NAME_ANY)
        case['ws'] = draw(S_WS)
        if mode == 'literal':
            case['sep'] = draw(st.sampled_from([' ', ' ', '  ', ' \t']))
            case['nounit'] = draw(st.integers(0, 7)) == 0
    return case


S_SUBST = st.sampled_from(['same', 'member', 'member', 'member', 'member', 'expand', 'expand'])
S_IDX = st.integers(0, 10 ** 6)


def _member(draw, cls):
    mem = [n for n in ux.MEMBERS[cls] if _known(n)]
    return mem[draw(S_IDX) % len(mem)]


def _substitute(draw, E, depth=0):
    """same-dimension rewrite of E: each unit replaced by a member of its class or by an expansion through other classes"""
    fs = []
    for F in E[1]:
        if F[0] == 'u':
            cls = ux.CLASS_OF[F[1]]
            how = draw(S_SUBST)
            if how == 'expand' and cls in ux.EXPANSIONS and depth < 2:
                tmpl = ux.EXPANSIONS[cls][draw(S_IDX) % len(ux.EXPANSIONS[cls])]
                sub, ops = [], ''
                for j, (op, c, x) in enumerate(tmpl):
                    X = None if x is None else ['x', x]
                    sub.append(['n', c, X] if c == '1' else ['u', _member(draw, c), X])
                    if j:
                        ops += op
                inner = ['E', sub, ops]
                if draw(S_BOOL):
                    inner = _substitute(draw, inner, depth + 1)
                fs.append(['g', inner, F[2]])
            elif how == 'same':
                fs.append(['u', F[1], F[2]])
            else:
                fs.append(['u', _member(draw, cls), F[2]])
        elif F[0] == 'n':
            fs.append(['n', F[1], F[2]])
        else:
            fs.append(['g', _substitute(draw, F[1], depth), F[2]])
    return ['E', fs, E[2]]


@st.composite
def invariance_cases(draw):
    A = _expr(draw, 2, S_NAME_DIM)
    B = _substitute(draw, A)
    cfgs = [draw(S_CFG), draw(S_CFG_NOT_SI), draw(S_CFG)]
    x = draw(st.one_of(scalars(), st.lists(S_F, min_size=1, max_size=4)))
    return {'A': A, 'B': B, 'wsA': draw(S_WS), 'wsB': draw(S_WS), 'cfgs': cfgs, 'x': x}


# ----------------------------------------------------------------------------- histories of working-unit choices

NBATTERY = 64                    # upper bound of the fixed battery in checks/c09.py (mask bits)
S_HOP = st.sampled_from(['change'] * 6 + ['drop'] * 2 + ['add'] * 2 + ['reorder', 'seed', 'SI'])
S_HQ = st.sampled_from([0, 1, 2, 3, 3, 4, 4, 4])          # index into QUANT; energy and charge weighted
S_HMASK = st.one_of(st.just(-1), st.just(-1), st.integers(0, 2 ** NBATTERY - 1))
S_HN = st.integers(2, 7)
S_HNEXTRA = st.sampled_from([0, 1, 1, 2])
S_HX = st.one_of(st.sampled_from([1.0, 2.5, -3.0, 7]), S_F.filter(lambda v: v != 0.0), st.lists(S_F, min_size=1, max_size=3))
S_HSTART = st.one_of(named_cfgs(), named_cfgs(),
                     st.builds(lambda o: {'kind': 'named', 'units': dict(_DEFAULT_UNITS), 'order': o},
                               S_ORDER[('length', 'mass', 'energy', 'charge')]))


@st.composite
def history_cases(draw):
    """a start choice and a list of steps; each step is resolved by the oracle against the choice then in force so that
    consecutive named choices differ in exactly one quantity (changed name, dropped, added) - any sub-list is a valid walk"""
    start = draw(S_HSTART)
    steps = [{'op': draw(S_HOP), 'q': draw(S_HQ), 'name': draw(S_IDX), 'perm': draw(S_IDX), 'mask': draw(S_HMASK)}
             for _ in range(draw(S_HN))]
    extra = [{'ast': _expr(draw, 2, S_NAME_DIM), 'ws': draw(S_WS)} for _ in range(draw(S_HNEXTRA))]
    return {'start': start, 'mask': draw(S_HMASK), 'steps': steps, 'extra': extra, 'x': draw(S_HX)}
