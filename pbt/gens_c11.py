"""Generators of elastic-constant cases (shared by C10, C11, C12, C18).  Pure numpy + Hypothesis; never imports atomman.

A *tensor case* is a JSON-able dict of one of three kinds

  {'kind': 'spd',   'lam': [6 eigenvalues in [1,500]], 'ang': [15 Givens angles, degrees]}
        generic symmetric positive-definite 6x6:  Q diag(lam) Q^T, Q = product of the 15 plane rotations (i<j)
  {'kind': 'named', 'system': <one of SYSTEMS>, 'C': {name: value, ...}}
        an admissible (positive-definite, cond <= 1e3) constant set of a crystal system in its standard setting.
        'C' holds the canonical independent set NAMES[system]; isotropic holds {'E','nu'}.
  {'kind': 'rot',   'base': <tensor case>, 'rot': [[ax,ay,az], angle_deg]}
        the base tensor expressed in rotated axes (rows of the rotation = new axes)

Interface
  cij(case)            -> (6,6) numpy array (Voigt stiffness), by pure numpy
  constants(case)      -> dict of the named constants of a 'named' case incl. the dependent ones (C66 of hexagonal /
                          rhombohedral; C11, C12, C44 of isotropic)
  place(system, k)     -> (6,6) array from a dict of named constants (my own placement table)
  system_of(case)      -> system name for 'named', 'triclinic' for everything else
  kwargs_of(case, form=None) -> keyword dict to hand to a constructor taking C11=..., per documented alternatives
  FORMS[system]        -> the documented alternative keyword sets of a system
  strategies (cached, build once):  spd(), named(system=None, variants=False), isotropic(variants=False),
                          tensors(rotated=True, isotropic_too=True, variants=False),
                          rot_specs() -> [axis, angle_deg], strains(scale=0.05) -> nested 3x3 list
  rotate_case(case, rot) -> the 'rot' case;  labels_of(case) -> set of classification labels
  Reference algebra used here (Voigt maps, rotation, symmetry generators, isotropic moduli, VRH) is in
  pbt/oracles/elastic.py.

Typical use in another check (never hand numpy arrays to a case; the case is the dict, the matrix is derived):
      from .. import gens_c11 as g
      T = draw(g.tensors())                 # in a composite strategy; put T into the case
      C6 = g.cij(case['T'])                 # in the oracle: my 6x6, independent of atomman
      ec = am.ElasticConstants(Cij=C6.copy())        or   am.ElasticConstants(**g.kwargs_of(case['T']))
  Every generated tensor is positive definite with cond <= ~1e3 and max|C| in [1, ~600] (isotropic near nu = 0.495: up to ~2e4; think GPa); an isotropic case
  ({'system': 'isotropic'}) is *exactly* isotropic, every other kind is anisotropic except by accident ('iso_mix' = 1.0).

Variants (opt-in: tensors(variants=True), named(system, variants=True), isotropic(variants=True); the default strategies
are unchanged, so checks that assume "numbers like GPa" keep their domain).  They are ordinary cases of the three kinds
above that carry extra informational keys (read only by labels_of):
  'scale': s      overall magnitude: every constant (spd: every eigenvalue) multiplied by s, 1e-6 <= s <= 1e6
                  (log-uniform-ish plus unit-conversion factors such as 1 GPa = 0.00624 eV/A^3; exactly 1 in ~1/3, then
                  the key is absent).  All that may be assumed about such a tensor is relative to max|C|.
  'near_iso': d   weakly anisotropic: C = Ciso + d (C0 - Ciso), 1e-6 <= d <= 1e-2, Ciso the isotropic tensor
                  (C11 = mean diagonal, C12 = 0.4 C11, C44 = 0.3 C11) the admissibility ladder shrinks toward; a generic
                  SPD base is first rewritten as a 'named' triclinic case.  The anisotropy ratio differs from 1 by O(d).
  'whole': True   every named constant is a whole number (so that a caller can pass Python/numpy integers)
  pure helpers: scaled_case(case, s), near_isotropic(case, d), whole_case(case), scale_of(case)

Later additions (a fourth kind and two more variants; the strategies above do not produce them, so the checks that share
this file see no change):
  {'kind': 'perm',  'base': <tensor case>, 'perm': k}     the base tensor with its axes relabelled by the k-th of the 24
        proper signed permutation matrices SIGNED_PERMS (rows = new axes): an EXACT re-arrangement of the entries
        (mirror images are covered too: a fourth-rank tensor does not change under inversion)
  'almost': 'cpl' | 'equal' | 'iso'   near-threshold variants (almost_case): the coupling constants of a tetragonal /
        rhombohedral / monoclinic / triclinic set replaced by +/-10**u C11, -12 <= u <= -3 (almost the higher symmetry);
        an orthorhombic set with C22, C23, C55 within 10**u (relative) of C11, C13, C44 (almost tetragonal); a cubic /
        hexagonal set within 10**u of isotropy (near_isotropic with d = 10**u)
  'fit': <dtype>, 'whole': True       whole-number constants rescaled so that the largest equals a given integer (the
        limit of a narrow integer dtype): fitted_whole(case, hi, nonneg)
  strategies: almost_tensors(), perm_tensors(), near_sym_rots(), perm_rots() -> ['P', k]
"""
import functools
import itertools
import math

import numpy as np
from hypothesis import strategies as st

from . import gens
from .oracles import elastic as el

SYSTEMS = ('isotropic', 'cubic', 'hexagonal', 'tetragonal', 'rhombohedral', 'orthorhombic', 'monoclinic', 'triclinic')

TRICLINIC_NAMES = tuple('C%d%d' % (i + 1, j + 1) for i in range(6) for j in range(i, 6))

NAMES = {
    'isotropic': ('E', 'nu'),
    'cubic': ('C11', 'C12', 'C44'),
    'hexagonal': ('C11', 'C12', 'C13', 'C33', 'C44'),
    'tetragonal': ('C11', 'C12', 'C13', 'C16', 'C33', 'C44', 'C66'),
    'rhombohedral': ('C11', 'C12', 'C13', 'C14', 'C15', 'C33', 'C44'),
    'orthorhombic': ('C11', 'C12', 'C13', 'C22', 'C23', 'C33', 'C44', 'C55', 'C66'),
    'monoclinic': ('C11', 'C12', 'C13', 'C15', 'C22', 'C23', 'C25', 'C33', 'C35', 'C44', 'C46', 'C55', 'C66'),
    'triclinic': TRICLINIC_NAMES,
}

# documented alternative keyword sets (ElasticConstants docstrings): which of the dependent trio C11/C12/C66 is given,
# whether the optional C16 / C15 is passed
FORMS = {
    'isotropic': ('C11C12',),
    'cubic': ('std',),
    'hexagonal': ('C11C12', 'C11C66', 'C12C66', 'all3'),
    'tetragonal': ('std', 'noC16'),
    'rhombohedral': ('C11C12', 'C11C66', 'C12C66', 'all3', 'C11C12-noC15', 'C11C66-noC15', 'C12C66-noC15', 'all3-noC15'),
    'orthorhombic': ('std',),
    'monoclinic': ('std',),
    'triclinic': ('std',),
}


# ------------------------------------------------------------------ case -> matrix

def _sym(entries):
    C = np.zeros((6, 6))
    for (i, j), v in entries.items():
        C[i - 1, j - 1] = v
        C[j - 1, i - 1] = v
    return C


def place(system, k):
    """Voigt matrix of a crystal system in its standard setting (Nye, table 9; 3-fold/4-fold/6-fold axis along z,
    monoclinic 2-fold along y, trigonal classes 32/3m with the 2-fold along x)"""
    g = k.get
    if system == 'isotropic':
        if 'C11' in k:
            c11, c12 = k['C11'], k['C12']
            return _sym({(1, 1): c11, (2, 2): c11, (3, 3): c11, (1, 2): c12, (1, 3): c12, (2, 3): c12,
                         (4, 4): (c11 - c12) / 2, (5, 5): (c11 - c12) / 2, (6, 6): (c11 - c12) / 2})
        m = el.isotropic_moduli(k['E'], k['nu'])
        return el.isotropic_voigt(m['lambda'], m['mu'])
    if system == 'cubic':
        return _sym({(1, 1): k['C11'], (2, 2): k['C11'], (3, 3): k['C11'], (1, 2): k['C12'], (1, 3): k['C12'],
                     (2, 3): k['C12'], (4, 4): k['C44'], (5, 5): k['C44'], (6, 6): k['C44']})
    if system == 'hexagonal':
        c66 = (k['C11'] - k['C12']) / 2
        return _sym({(1, 1): k['C11'], (2, 2): k['C11'], (3, 3): k['C33'], (1, 2): k['C12'], (1, 3): k['C13'],
                     (2, 3): k['C13'], (4, 4): k['C44'], (5, 5): k['C44'], (6, 6): c66})
    if system == 'tetragonal':
        c16 = g('C16', 0.0)
        return _sym({(1, 1): k['C11'], (2, 2): k['C11'], (3, 3): k['C33'], (1, 2): k['C12'], (1, 3): k['C13'],
                     (2, 3): k['C13'], (4, 4): k['C44'], (5, 5): k['C44'], (6, 6): k['C66'],
                     (1, 6): c16, (2, 6): -c16})
    if system == 'rhombohedral':
        c14, c15 = k['C14'], g('C15', 0.0)
        c66 = (k['C11'] - k['C12']) / 2
        return _sym({(1, 1): k['C11'], (2, 2): k['C11'], (3, 3): k['C33'], (1, 2): k['C12'], (1, 3): k['C13'],
                     (2, 3): k['C13'], (4, 4): k['C44'], (5, 5): k['C44'], (6, 6): c66,
                     (1, 4): c14, (2, 4): -c14, (5, 6): c14, (1, 5): c15, (2, 5): -c15, (4, 6): -c15})
    if system == 'orthorhombic':
        return _sym({(1, 1): k['C11'], (2, 2): k['C22'], (3, 3): k['C33'], (1, 2): k['C12'], (1, 3): k['C13'],
                     (2, 3): k['C23'], (4, 4): k['C44'], (5, 5): k['C55'], (6, 6): k['C66']})
    if system == 'monoclinic':
        return _sym({(1, 1): k['C11'], (2, 2): k['C22'], (3, 3): k['C33'], (1, 2): k['C12'], (1, 3): k['C13'],
                     (2, 3): k['C23'], (4, 4): k['C44'], (5, 5): k['C55'], (6, 6): k['C66'],
                     (1, 5): k['C15'], (2, 5): k['C25'], (3, 5): k['C35'], (4, 6): k['C46']})
    if system == 'triclinic':
        return _sym({(int(n[1]), int(n[2])): k[n] for n in TRICLINIC_NAMES})
    raise ValueError(system)


_GIVENS = tuple((i, j) for i in range(6) for j in range(i + 1, 6))


def spd_matrix(lam, ang):
    Q = np.eye(6)
    for (i, j), a in zip(_GIVENS, ang):
        if a:
            t = math.radians(a)
            c, s = math.cos(t), math.sin(t)
            qi, qj = Q[:, i].copy(), Q[:, j].copy()
            Q[:, i] = c * qi + s * qj
            Q[:, j] = -s * qi + c * qj
    C = (Q * np.asarray(lam, dtype=float)) @ Q.T
    return (C + C.T) / 2


def cij(case):
    """(6,6) Voigt stiffness of a tensor case, pure numpy"""
    kind = case['kind']
    if kind == 'spd':
        return spd_matrix(case['lam'], case['ang'])
    if kind == 'named':
        return place(case['system'], case['C'])
    if kind == 'rot':
        C = el.rotate_voigt(cij(case['base']), el.rotation_matrix(*case['rot']))
        return (C + C.T) / 2
    if kind == 'perm':
        # exact: every entry of the result is +/- one entry of the base (all other terms of the sums are exact zeros)
        C = el.rotate_voigt(cij(case['base']), np.array(SIGNED_PERMS[case['perm'] % 24], dtype=float))
        return (C + C.T) / 2
    raise ValueError(kind)


def system_of(case):
    return case['system'] if case['kind'] == 'named' else 'triclinic'


def constants(case):
    """named constants of a 'named' case, including the dependent ones; for other kinds the 21 triclinic ones"""
    if case['kind'] != 'named':
        C = cij(case)
        return {n: float(C[int(n[1]) - 1, int(n[2]) - 1]) for n in TRICLINIC_NAMES}
    s, k = case['system'], dict(case['C'])
    if s == 'isotropic':
        m = el.isotropic_moduli(k['E'], k['nu'])
        k.update(m)
        k.update({'C11': m['M'], 'C12': m['lambda'], 'C44': m['mu']})
    elif s in ('hexagonal', 'rhombohedral'):
        k['C66'] = (k['C11'] - k['C12']) / 2
    return k


def kwargs_of(case, form=None):
    """keyword arguments describing the case to a constructor that takes named constants"""
    k = constants(case)
    if case['kind'] != 'named':
        return k
    s = case['system']
    form = form or FORMS[s][0]
    if s == 'isotropic':
        return {'C11': k['C11'], 'C12': k['C12']}
    if s in ('hexagonal', 'rhombohedral'):
        trio = form.split('-')[0]
        out = {n: k[n] for n in NAMES[s] if n not in ('C11', 'C12', 'C15')}
        for n in ('C11', 'C12', 'C66'):
            if trio == 'all3' or n in trio:
                out[n] = k[n]
        if s == 'rhombohedral' and not (form.endswith('noC15') and k['C15'] == 0.0):
            out['C15'] = k['C15']
        return out
    if s == 'tetragonal':
        out = {n: k[n] for n in NAMES[s]}
        if form == 'noC16' and k['C16'] == 0.0:
            del out['C16']
        return out
    return {n: k[n] for n in NAMES[s]}


def rotate_case(case, rot):
    return {'kind': 'rot', 'base': case, 'rot': rot}


def labels_of(case):
    labs = {'kind_' + case['kind']}
    if case['kind'] == 'named':
        labs.add('sys_' + case['system'])
        if case['system'] == 'tetragonal':
            labs.add('C16_nonzero' if case['C']['C16'] else 'C16_zero')
        if case['system'] == 'rhombohedral':
            labs.add('C15_nonzero' if case['C']['C15'] else 'C15_zero')
    elif case['kind'] == 'rot':
        b = case['base']
        labs.add('rot_of_' + (b['system'] if b['kind'] == 'named' else b['kind']))
    elif case['kind'] == 'perm':
        b = case['base']
        labs.add('perm_of_' + (b['system'] if b['kind'] == 'named' else b['kind']))
    if 'almost' in case:
        labs.update({'almost', 'almost_' + case['almost']})
    if 'fit' in case:
        labs.add('fit_' + case['fit'])
    if 'scale' in case:
        sc = case['scale']
        labs.add('scale_small' if sc < 1e-3 else 'scale_large' if sc > 1e3 else 'scale_mid')
    if 'near_iso' in case:
        labs.add('near_iso')
    if case.get('whole'):
        labs.add('whole')
    return labs


# ------------------------------------------------------------------ variants (pure functions of a case)

def scale_of(case):
    return case.get('scale', 1.0)


def scaled_case(case, s):
    """the same material with every stiffness multiplied by s (Poisson's ratio is dimensionless)"""
    if s == 1.0:
        return case
    out = dict(case)
    kind = case['kind']
    if kind == 'spd':
        out['lam'] = [l * s for l in case['lam']]
    elif kind == 'named':
        out['C'] = {n: (v if n == 'nu' else v * s) for n, v in case['C'].items()}
    else:
        out['base'] = scaled_case(case['base'], s)
    out['scale'] = s * case.get('scale', 1.0)
    return out


def _as_triclinic(case):
    C = cij(case)
    return {'kind': 'named', 'system': 'triclinic',
            'C': {n: float(C[int(n[1]) - 1, int(n[2]) - 1]) for n in TRICLINIC_NAMES}}


def _iso_of(k):
    d = [k[n] for n in ('C11', 'C22', 'C33') if n in k]
    c11 = sum(d) / len(d)
    return {'C11': c11, 'C22': c11, 'C33': c11, 'C12': 0.4 * c11, 'C13': 0.4 * c11, 'C23': 0.4 * c11,
            'C44': 0.3 * c11, 'C55': 0.3 * c11, 'C66': 0.3 * c11}


def near_isotropic(case, d):
    """C = Ciso + d (C - Ciso): a convex combination of two positive-definite tensors of the same crystal system in the
    same setting (every placement table is linear in the constants), hence admissible; exactly isotropic cases are
    returned unchanged"""
    kind = case['kind']
    if kind in ('rot', 'perm'):
        out = dict(case)
        out['base'] = near_isotropic(case['base'], d)
        if 'near_iso' in out['base']:
            out['near_iso'] = d
        return out
    if kind == 'spd':
        case = _as_triclinic(case)
    if case['system'] == 'isotropic':
        return case
    k = case['C']
    iso = _iso_of(k)
    out = dict(case)
    out['C'] = {n: iso.get(n, 0.0) + d * (v - iso.get(n, 0.0)) for n, v in k.items()}
    out['near_iso'] = d
    return out


def whole_case(case):
    """named constants rounded to whole numbers when the rounded set is still admissible (else the case unchanged)"""
    if case['kind'] != 'named' or case['system'] == 'isotropic':
        return case
    k = {n: float(round(v)) for n, v in case['C'].items()}
    w = np.linalg.eigvalsh(place(case['system'], k))
    if not w[0] >= 0.5 * MIN_EIG_RATIO * w[-1]:
        return case
    out = dict(case)
    out['C'] = k
    out['whole'] = True
    return out


# ------------------------------------------------------------------ strategies
# Bulk numbers come in two flavours: "native" Hypothesis floats (shrink well, rich in special structure: repeated
# eigenvalues, zero angles, boundary values) and "seeded" (a drawn integer expanded with numpy's Generator *inside the
# strategy*, so that the case holds the expanded numbers: uniformly generic values).

_seed = st.integers(0, 2 ** 32 - 1)
_mode = st.integers(0, 3)                 # 0: native, 1-3: seeded
_lam = gens.nice(1.0, 500.0, 3)
_ang = st.one_of(gens.nice(-180.0, 180.0, 2), gens.nice(-180.0, 180.0, 2), st.just(0.0))
_lams = st.lists(_lam, min_size=6, max_size=6)
_angs = st.lists(_ang, min_size=15, max_size=15)


@functools.lru_cache(maxsize=None)
def spd():
    """generic SPD 6x6, eigenvalues in [1,500] (cond <= 500)"""
    @st.composite
    def _s(draw):
        if draw(_mode) == 0:
            return {'kind': 'spd', 'lam': draw(_lams), 'ang': draw(_angs)}
        rng = np.random.default_rng(draw(_seed))
        return {'kind': 'spd', 'lam': [round(float(x), 3) for x in rng.uniform(1.0, 500.0, 6)],
                'ang': [round(float(x), 2) for x in rng.uniform(-180.0, 180.0, 15)]}
    return _s()


_RANGE = {'diag': (40.0, 500.0), 'shear': (10.0, 250.0), 'off': (-60.0, 300.0), 'cpl': (-90.0, 90.0)}
_NATIVE = {'diag': gens.nice(40.0, 500.0, 2), 'shear': gens.nice(10.0, 250.0, 2), 'off': gens.nice(-60.0, 300.0, 2),
           'cpl': st.one_of(gens.nice(-90.0, 90.0, 2), gens.nice(-15.0, 15.0, 3))}


def _kind_of(name):
    if name in ('C11', 'C22', 'C33'):
        return 'diag'
    if name in ('C44', 'C55', 'C66'):
        return 'shear'
    if name in ('C12', 'C13', 'C23'):
        return 'off'
    return 'cpl'


_LADDER = (0.0, 0.3, 0.6, 0.8, 0.9, 0.96, 1.0)
MIN_EIG_RATIO = 2e-3          # cond(C) <= 500 for every generated named set


def _admissible(system, raw):
    """shrink the drawn set toward an isotropic one (which belongs to every system in its standard setting) along a
    fixed ladder until the matrix is positive definite with eig_min >= MIN_EIG_RATIO * eig_max"""
    c11 = sum(raw[n] for n in ('C11', 'C22', 'C33') if n in raw) / sum(1 for n in ('C11', 'C22', 'C33') if n in raw)
    iso = {'C11': c11, 'C22': c11, 'C33': c11, 'C12': 0.4 * c11, 'C13': 0.4 * c11, 'C23': 0.4 * c11,
           'C44': 0.3 * c11, 'C55': 0.3 * c11, 'C66': 0.3 * c11}
    for t in _LADDER:
        k = {n: round((1 - t) * v + t * iso.get(n, 0.0), 4) for n, v in raw.items()}
        w = np.linalg.eigvalsh(place(system, k))
        if w[0] >= MIN_EIG_RATIO * w[-1]:
            return k, t
    raise AssertionError('isotropic end of the ladder must be admissible')


_nu_sel = st.integers(0, 11)
_nu_grid = st.integers(1, 4950).map(lambda k: k / 10000.0)
_nu_tiny = st.sampled_from([1e-12, 1e-9, 1e-8, 1e-6, 1e-4, 1e-3])
_E = gens.nice(1.0, 600.0, 3)


@functools.lru_cache(maxsize=None)
def _named_system(system):
    if system == 'isotropic':
        @st.composite
        def _iso(draw):
            w = draw(_nu_sel)
            nu = 0.0 if w == 0 else draw(_nu_tiny) if w == 1 else draw(_nu_grid)
            if draw(_mode) == 0:
                E = draw(_E)
            else:
                E = round(float(np.random.default_rng(draw(_seed)).uniform(1.0, 600.0)), 3)
            return {'kind': 'named', 'system': 'isotropic', 'C': {'E': E, 'nu': nu}}
        return _iso()
    if system == 'triclinic':
        def conv(c):
            C = cij(c)
            return {'kind': 'named', 'system': 'triclinic',
                    'C': {n: float(C[int(n[1]) - 1, int(n[2]) - 1]) for n in TRICLINIC_NAMES}}
        return spd().map(conv)
    names = NAMES[system]
    optional = {'tetragonal': 'C16', 'rhombohedral': 'C15'}.get(system)
    native = st.tuples(*[_NATIVE[_kind_of(n)] for n in names])

    @st.composite
    def _sys(draw):
        if draw(_mode) == 0:
            vals = list(draw(native))
        else:
            rng = np.random.default_rng(draw(_seed))
            vals = [round(float(rng.uniform(*_RANGE[_kind_of(n)])), 2) for n in names]
        raw = dict(zip(names, vals))
        if optional and draw(gens._bool):
            raw[optional] = 0.0             # optional constant: zero in half of the cases (higher Laue class)
        k, t = _admissible(system, raw)
        return {'kind': 'named', 'system': system, 'C': k, 'iso_mix': t}
    return _sys()


_ANISO = tuple(s for s in SYSTEMS if s != 'isotropic')


# unit-conversion factors between the pressure units atomman users meet (GPa <-> eV/A^3, GPa <-> Pa/bar/Mbar ...) and
# the ends of the range
_SCALE_SPECIAL = (0.00624150913, 160.21766208, 6.24150913e-6, 1e-6, 1e-5, 1e-4, 1e-3, 1e3, 1e5, 1e6, 0.01, 100.0)


def _draw_scale(rng):
    """1 in 1/3, a special factor in 1/9, the small end 10**u, u in [-6,-4.5], in 1/9 (there absolute tolerances
    inside the code under test start to matter: max|C| <~ 1e-3), else 10**u with u uniform in [-6, 6] (two decimals)"""
    w = int(rng.integers(0, 9))
    if w <= 2:
        return 1.0
    if w == 3:
        return _SCALE_SPECIAL[int(rng.integers(0, len(_SCALE_SPECIAL)))]
    if w == 4:
        return 10.0 ** (int(rng.integers(-600, -449)) / 100.0)
    return 10.0 ** (int(rng.integers(-600, 601)) / 100.0)


def _variant(draw, T):
    """near-isotropic in 1/3 (d = 10**u, u uniform in [-6,-2]), whole-number constants in 1/6 (named cases only), scaled in 2/3.  The
    choices come from a drawn seed expanded here (Hypothesis' own small integers cluster at their minimal values)"""
    rng = np.random.default_rng(draw(_seed))
    v = int(rng.integers(0, 12))
    if v <= 3:
        T = near_isotropic(T, 10.0 ** (int(rng.integers(-600, -199)) / 100.0))
    elif v <= 5:
        T = whole_case(T)
        if T.get('whole'):
            return T
    return scaled_case(T, _draw_scale(rng))


@functools.lru_cache(maxsize=None)
def named(system=None, variants=False):
    """admissible constant set of the given crystal system (None: any of the seven crystal systems, no isotropic)"""
    if system is not None and not variants:
        return _named_system(system)

    @st.composite
    def _any(draw):
        T = draw(_named_system(system if system is not None else draw(_anysys)))
        return _variant(draw, T) if variants else T
    return _any()


@functools.lru_cache(maxsize=None)
def isotropic(variants=False):
    if not variants:
        return _named_system('isotropic')

    @st.composite
    def _iso(draw):
        T = draw(_named_system('isotropic'))
        return scaled_case(T, _draw_scale(np.random.default_rng(draw(_seed))))
    return _iso()


_axis = st.lists(st.integers(-5, 5), min_size=3, max_size=3).filter(any)
_angle = st.one_of(gens.nice(0.0, 180.0, 3), gens.nice(5.0, 175.0, 1), gens.nice(5.0, 175.0, 1),
                   st.sampled_from([0.0, 90.0, 180.0, 120.0, 60.0, 45.0, 1e-6, 0.01]))


@functools.lru_cache(maxsize=None)
def rot_specs():
    """[axis (3 small integers, not all zero), angle in degrees]"""
    return st.tuples(_axis, _angle).map(list)


_anysys = st.sampled_from(_ANISO)
_which = st.integers(0, 11)


@functools.lru_cache(maxsize=None)
def tensors(rotated=True, isotropic_too=True, variants=False):
    """mixture: generic SPD (1/4), each crystal system in its standard setting (5/12), isotropic (1/12) and
    (rotated=True) a crystal-system / SPD tensor expressed in rotated axes (1/4); variants=True: additionally the
    magnitude / near-isotropy / whole-number variants described in the module docstring"""
    if variants:
        plain = tensors(rotated, isotropic_too)

        @st.composite
        def _v(draw):
            return _variant(draw, draw(plain))
        return _v()

    @st.composite
    def _t(draw):
        w = draw(_which)
        if w <= 2:
            return draw(spd())
        if w <= 7 or (w == 8 and not isotropic_too) or (w >= 9 and not rotated):
            return draw(_named_system(draw(_anysys)))
        if w == 8:
            return draw(_named_system('isotropic'))
        base = draw(spd()) if w == 11 and draw(gens._bool) else draw(_named_system(draw(_anysys)))
        return rotate_case(base, draw(rot_specs()))
    return _t()


@functools.lru_cache(maxsize=None)
def strains(scale=0.05):
    """symmetric 3x3 strain as nested lists"""
    e = st.one_of(gens.nice(-scale, scale, 5), gens.nice(-scale, scale, 5), st.just(0.0))
    return st.lists(e, min_size=6, max_size=6).map(
        lambda v: [[v[0], v[5], v[4]], [v[5], v[1], v[3]], [v[4], v[3], v[2]]])


# ====================================================================== later additions (see the module docstring)

def _proper_signed_perms():
    out = []
    for p in itertools.permutations(range(3)):
        for sg in itertools.product((1, -1), repeat=3):
            M = [[0, 0, 0], [0, 0, 0], [0, 0, 0]]
            for i in range(3):
                M[i][p[i]] = sg[i]
            if round(float(np.linalg.det(np.array(M, dtype=float)))) == 1:
                out.append(M)
    return tuple(out)


SIGNED_PERMS = _proper_signed_perms()          # 24 integer matrices, [0] is the identity
assert len(SIGNED_PERMS) == 24 and SIGNED_PERMS[0] == [[1, 0, 0], [0, 1, 0], [0, 0, 1]]


def perm_case(case, k):
    return {'kind': 'perm', 'base': case, 'perm': int(k) % 24}


def _admissible_as_is(system, k, ratio=MIN_EIG_RATIO / 2):
    w = np.linalg.eigvalsh(place(system, k))
    return bool(w[0] >= ratio * w[-1])


def almost_case(case, seed):
    """near-threshold variant of a case (pure function of case and seed); the case itself when none applies or the varied
    set is not admissible"""
    kind = case['kind']
    if kind in ('rot', 'perm'):
        out = dict(case)
        out['base'] = almost_case(case['base'], seed)
        if 'almost' in out['base']:
            out['almost'] = out['base']['almost']
        return out
    if kind == 'spd':
        case = _as_triclinic(case)
    s = case['system']
    rng = np.random.default_rng(seed)

    def delta():
        sign = -1.0 if int(rng.integers(0, 2)) else 1.0
        return sign * 10.0 ** (int(rng.integers(-1200, -299)) / 100.0)
    k = dict(case['C'])
    if s in ('tetragonal', 'rhombohedral', 'monoclinic', 'triclinic'):
        # zero couplings leave a block-diagonal matrix of principal sub-matrices (positive definite, not worse conditioned)
        for n in NAMES[s]:
            if _kind_of(n) == 'cpl':
                k[n] = delta() * k['C11']
        tag = 'cpl'
    elif s == 'orthorhombic':
        k['C22'], k['C23'], k['C55'] = k['C11'] * (1 + delta()), k['C13'] * (1 + delta()), k['C44'] * (1 + delta())
        tag = 'equal'
    elif s in ('cubic', 'hexagonal'):
        out = near_isotropic(case, abs(delta()))
        out['almost'] = 'iso'
        return out
    else:
        return case
    if not _admissible_as_is(s, k):
        return case
    out = {n: v for n, v in case.items() if n != 'iso_mix'}
    out['C'] = k
    out['almost'] = tag
    return out


def fitted_whole(case, hi, nonneg=False):
    """whole-number constants proportional to the case's with the largest magnitude equal to hi (the limit of an integer
    dtype), such that the whole Voigt matrix is whole (C11 - C12 even where C66 = (C11 - C12)/2) and, for nonneg, has no
    negative entry; None when the rounded set is not admissible.  spd / rot / perm kinds become a triclinic set."""
    if case['kind'] != 'named':
        case = _as_triclinic(case)
    s = case['system']
    if s == 'isotropic':
        return None
    big = max(abs(v) for v in case['C'].values())
    k = {n: float(round(v * (hi / big))) for n, v in case['C'].items()}
    if s in ('hexagonal', 'rhombohedral') and (k['C11'] - k['C12']) % 2:
        k['C12'] += 1.0 if k['C12'] < 0 else -1.0
    C = place(s, k)
    if float(np.abs(C).max()) > hi or (nonneg and float(C.min()) < 0) or not _admissible_as_is(s, k):
        return None
    return {'kind': 'named', 'system': s, 'C': k, 'whole': True}


_almost_seed = st.integers(0, 2 ** 32 - 1)
_perm_idx = st.integers(0, 23)


@functools.lru_cache(maxsize=None)
def almost_tensors():
    """crystal-system / generic tensors (standard setting 2/3, rotated 1/3) in their near-threshold variant, at magnitude 1
    in half and else scaled like every variant"""
    plain = tensors(rotated=True, isotropic_too=False)

    @st.composite
    def _a(draw):
        seed = draw(_almost_seed)
        T = almost_case(draw(plain), seed)
        rng = np.random.default_rng(seed + 1)
        return T if int(rng.integers(0, 2)) else scaled_case(T, _draw_scale(rng))
    return _a()


@functools.lru_cache(maxsize=None)
def perm_tensors():
    """a crystal-system tensor (or, 1/6, a generic one) with exactly relabelled axes, plain or in a variant"""
    @st.composite
    def _p(draw):
        base = draw(spd()) if draw(_which) <= 1 else draw(_named_system(draw(_anysys)))
        T = perm_case(base, draw(_perm_idx))
        return _variant(draw, T) if draw(gens._bool) else T
    return _p()


_SYM_SPOTS = (((0, 0, 1), 90.0), ((1, 0, 0), 90.0), ((0, 1, 0), 90.0), ((0, 0, 1), 180.0), ((1, 0, 0), 180.0), ((0, 1, 0), 180.0),
              ((1, 1, 1), 120.0), ((0, 0, 1), 120.0), ((0, 0, 1), 60.0), ((1, 1, 0), 180.0), ((0, 0, 1), 0.0), ((1, -1, 0), 180.0),
              ((0, 0, 1), 45.0), ((-1, 1, 1), 120.0))
_spot = st.sampled_from(_SYM_SPOTS)


@functools.lru_cache(maxsize=None)
def near_sym_rots():
    """[axis, angle]: a symmetry operation of some crystal system missed by 10**u degrees, -10 <= u <= -2 (either side)"""
    @st.composite
    def _r(draw):
        axis, ang = draw(_spot)
        rng = np.random.default_rng(draw(_almost_seed))
        d = 10.0 ** (int(rng.integers(-1000, -199)) / 100.0)
        a = ang + d if (ang == 0.0 or int(rng.integers(0, 2))) else ang - d
        return [list(axis), a]
    return _r()


@functools.lru_cache(maxsize=None)
def perm_rots():
    """['P', k]: the k-th proper signed permutation matrix, exactly"""
    return _perm_idx.map(lambda k: ['P', k])
