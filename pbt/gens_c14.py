"""Helpers of the C14 check for the generator classes carried over from the seeded rounds of the other properties:
input forms (how the caller hands numbers in: lists, tuples, narrow / unsigned / big-endian / bool / float arrays, numpy scalars,
read-only and strided arrays), storage forms of the unit cell, and the result ledger.  Never imports atomman.

A *form* is a short string stored in the case; ``int_arg`` / ``float_arg`` / ``scalar_arg`` / ``index_arg`` turn the JSON numbers of the
case into the object the caller passes.  ``request`` gives back the float64 numbers such an object holds (the request the oracle
decides from: a float32 array IS the numbers it holds).
"""
import numpy as np
from hypothesis import strategies as st

# ----------------------------------------------------------------------------- integer index vectors (hkl, integer uvw)

INT_DTYPES = {'i8': '<i8', 'i4': '<i4', 'i2': '<i2', 'i1': 'i1', 'u1': 'u1', 'u2': '<u2', 'u4': '<u4', 'u8': '<u8',
              'be4': '>i4', 'be2': '>i2', 'be8': '>i8', 'bool': '?', 'f8': '<f8', 'f4': '<f4', 'f2': '<f2', 'bef8': '>f8'}
INT_FORMS = ('list', 'tuple', 'npscalars', 'ro', 'strided', 'rev') + tuple(INT_DTYPES)
NARROW_INT = ('i2', 'i1', 'u1', 'u2', 'u4', 'u8', 'be4', 'be2', 'be8', 'bool')


def int_form_fits(form, vals):
    vals = [int(v) for v in vals]
    if form in ('u1', 'u2', 'u4', 'u8'):
        return min(vals) >= 0
    if form == 'bool':
        return all(v in (0, 1) for v in vals)
    return True


def int_arg(form, vals):
    """the integer vector `vals` the way the caller hands it in; a form that cannot hold the values falls back to int64"""
    vals = [int(v) for v in vals]
    if form is None or form == 'list':
        return list(vals)
    if form == 'tuple':
        return tuple(vals)
    if not int_form_fits(form, vals):
        form = 'i8'
    if form == 'npscalars':
        kinds = (np.int8, np.int16, np.int64, np.int32)
        return [kinds[i % 4](v) for i, v in enumerate(vals)]
    if form == 'ro':
        a = np.array(vals, dtype=np.int64)
        a.setflags(write=False)
        return a
    if form == 'strided':
        big = np.full(2 * len(vals), 77, dtype=np.int64)
        big[::2] = vals
        return big[::2]
    if form == 'rev':
        return np.array(vals[::-1], dtype=np.int32)[::-1]           # negative stride
    return np.array(vals, dtype=np.dtype(INT_DTYPES[form]))


# ----------------------------------------------------------------------------- float vectors (shift, faultshift, uvw with halves)

FLOAT_FORMS = ('list', 'tuple', 'f8', 'f4', 'bef8', 'ro', 'strided', 'npscalars', 'f8', 'f4')


def float_arg(form, vals):
    """a float vector the way the caller hands it in"""
    vals = [float(v) for v in vals]
    if form is None or form == 'list':
        return list(vals)
    if form == 'tuple':
        return tuple(vals)
    if form == 'f4':
        return np.array(vals, dtype=np.float32)
    if form == 'f2':
        return np.array(vals, dtype=np.float16)
    if form == 'bef8':
        return np.array(vals, dtype='>f8')
    if form == 'npscalars':
        return [np.float64(v) for v in vals]
    if form == 'ro':
        a = np.array(vals, dtype=float)
        a.setflags(write=False)
        return a
    if form == 'strided':
        big = np.full((len(vals), 2), 0.77)
        big[:, 0] = vals
        return big[:, 0]
    return np.array(vals, dtype=float)


def request(obj):
    """the float64 numbers an argument object holds"""
    return np.array(obj, dtype=float)


def dyadic(vals, bits=20):
    return all(float(v) * 2 ** bits == round(float(v) * 2 ** bits) for v in vals)


# ----------------------------------------------------------------------------- scalars

SCALAR_FORMS = ('py', 'np8', 'np4', 'arr0', 'py', 'np8')
INDEX_FORMS = ('py', 'i1s', 'i8s', 'u1s', 'i4s', 'py')


def scalar_arg(form, x):
    x = float(x)
    if form == 'np8':
        return np.float64(x)
    if form == 'np4':
        return np.float32(x)
    if form == 'arr0':
        return np.array(x)
    return x


def index_arg(form, k):
    k = int(k)
    if form == 'i1s' and -128 <= k <= 127:      # (an index the narrow type cannot hold goes in as a Python int)
        return np.int8(k)
    if form == 'i8s':
        return np.int64(k)
    if form == 'i4s':
        return np.int32(k)
    if form == 'u1s' and 0 <= k <= 255:
        return np.uint8(k)
    return k


# ----------------------------------------------------------------------------- size multipliers

MULT_FORMS = ('list', 'tuple', 'npscalars', 'array', 'array_i1')      # a (lo, hi) entry must be a tuple (System.supersize)


def mults_arg(form, mults):
    """[m | (lo, hi)] x 3 the way the caller hands it in"""
    def one(m):
        return (int(m[0]), int(m[1])) if isinstance(m, (list, tuple)) else int(m)
    plain = [one(m) for m in mults]
    allint = all(isinstance(m, int) for m in plain)
    if form == 'tuple':
        return tuple(plain)
    if form == 'npscalars':
        kinds = (np.int64, np.int8, np.int32)
        return [kinds[i % 3](m) if isinstance(m, int) else (np.int64(m[0]), np.int64(m[1])) for i, m in enumerate(plain)]
    if form == 'array' and allint:
        return np.array(plain, dtype=np.int64)
    if form == 'array_i1' and allint:
        return np.array(plain, dtype=np.int8)
    if form == 'listpairs':
        return [m if isinstance(m, int) else [m[0], m[1]] for m in plain]
    return list(plain)


# ----------------------------------------------------------------------------- storage of the unit cell

STORE_POS = ('f4', 'f4', 'f2', 'bef8', 'F', 'ro', 'strided', 'f4F')
STORE_ATYPE = (None, 'i1', 'u1', 'be4', 'i8', 'u2')


def store_pos(form, pos):
    """the N x 3 positions the way they are handed to Atoms; returns (array handed in, the float64 positions it holds)"""
    pos = np.array(pos, dtype=float).reshape(-1, 3)
    if form in ('f4', 'f4F'):
        a = pos.astype(np.float32)
        if form == 'f4F':
            a = np.asfortranarray(a)
    elif form == 'f2':
        a = pos.astype(np.float16)
    elif form == 'bef8':
        a = pos.astype('>f8')
    elif form == 'F':
        a = np.asfortranarray(pos)
    elif form == 'ro':
        a = pos.copy()
        a.setflags(write=False)
    elif form == 'strided':
        big = np.full((2 * len(pos), 6), 0.77)
        big[::2, ::2] = pos
        a = big[::2, ::2]
    else:
        a = pos.copy()
    return a, np.array(a, dtype=float)


def store_atype(form, types):
    if form is None:
        return np.array(types, dtype=int)
    return np.array(types, dtype=np.dtype({'i1': 'i1', 'u1': 'u1', 'be4': '>i4', 'i8': '<i8', 'u2': '<u2'}[form]))


# ----------------------------------------------------------------------------- the result ledger

class Ledger:
    """Everything the calls of one case returned (arrays, systems) with a bit-for-bit snapshot taken at return time - when it was
    judged by the oracles - and every array handed IN.  `verify` compares each with its snapshot after LATER calls on the same and
    on other objects: a result the caller holds must stay what it was, two results must not share memory, a result must not share
    memory with an input, and an input must be bit-identical (values, dtype, shape, strides) after the call."""

    def __init__(self, Violation):
        self.V = Violation
        self.arrays = []          # (array object, snapshot, where)
        self.systems = []         # (system, snapshot dict, where)
        self.inputs = []          # (object, snapshot, where)
        self.dropped = set()

    # -- results
    def add_array(self, arr, where):
        if isinstance(arr, np.ndarray) and not any(arr is a for a, _, _ in self.arrays):
            self.arrays.append((arr, np.array(arr, copy=True), where))
        return arr

    @staticmethod
    def snap_system(system):
        return {'pos': np.array(system.atoms.pos, copy=True), 'atype': np.array(system.atoms.atype, copy=True),
                'vects': np.array(system.box.vects, copy=True), 'origin': np.array(system.box.origin, copy=True),
                'pbc': np.array(system.pbc, copy=True)}

    def add_system(self, system, where):
        if not any(system is s for s, _, _ in self.systems):
            self.systems.append((system, self.snap_system(system), where))
        return system

    def drop(self, obj):
        """the caller gives this result up (it is about to overwrite it)"""
        self.dropped.add(id(obj))

    # -- inputs
    def add_input(self, obj, where):
        if isinstance(obj, np.ndarray):
            if not any(obj is o for o, _, _ in self.inputs):
                self.inputs.append((obj, (np.array(obj, copy=True), obj.dtype, obj.shape, obj.strides), where))
        elif isinstance(obj, (list, tuple)):
            if not any(obj is o for o, _, _ in self.inputs):
                self.inputs.append((obj, (type(obj), [x for x in obj]), where))
        return obj

    def changed_input(self, obj):
        """None, or a description of how the input object differs from its snapshot"""
        for o, snap, where in self.inputs:
            if o is not obj:
                continue
            if isinstance(o, np.ndarray):
                val, dt, shp, strd = snap
                if o.dtype != dt or o.shape != shp or o.strides != strd or not np.array_equal(o, val):
                    return '%s was %r (%s) and is %r (%s) after the call' % (where, val.tolist(), dt, o.tolist(), o.dtype)
            else:
                tp, items = snap
                same = type(o) is tp and len(o) == len(items) and all(type(a) is type(b) and a == b for a, b in zip(o, items))
                if not same:
                    return '%s was %r and is %r after the call' % (where, items, list(o))
        return None

    def verify_inputs(self, when=''):
        for o, _, _ in self.inputs:
            d = self.changed_input(o)
            if d:
                raise self.V('an argument the caller handed in was changed%s: %s' % (when, d))

    def verify(self, when=''):
        V = self.V
        for arr, snap, where in self.arrays:
            if id(arr) in self.dropped:
                continue
            if not (arr.shape == snap.shape and arr.dtype == snap.dtype and np.array_equal(arr, snap)):
                raise V('the array returned by %s was %r at return time and is %r%s' % (where, snap.tolist(), arr.tolist(), when))
        live = []
        for system, snap, where in self.systems:
            if id(system) in self.dropped:
                continue
            now = self.snap_system(system)
            for k in ('pos', 'atype', 'vects', 'origin', 'pbc'):
                if not (now[k].shape == snap[k].shape and np.array_equal(now[k], snap[k])):
                    bad = int(np.sum(now[k] != snap[k])) if now[k].shape == snap[k].shape else -1
                    raise V('the system returned by %s changed%s: %s differs from what it was at return time (%d entries; was %r ..., is %r ...)'
                            % (where, when, k, bad, snap[k].ravel()[:6].tolist(), now[k].ravel()[:6].tolist()))
            live.append((system, where))
        for i in range(len(live)):
            a = live[i][0].atoms.pos
            for j in range(i + 1, len(live)):
                if live[i][0].atoms is live[j][0].atoms or np.shares_memory(a, live[j][0].atoms.pos):
                    raise V('the systems returned by two calls share their atoms: %s / %s' % (live[i][1], live[j][1]))
            for o, _, where in self.inputs:
                if isinstance(o, np.ndarray) and np.shares_memory(a, o):
                    raise V('the system returned by %s shares memory with an argument (%s)' % (live[i][1], where))
        arrs = [(a, w) for a, _, w in self.arrays if id(a) not in self.dropped]
        for i in range(len(arrs)):
            for j in range(i + 1, len(arrs)):
                if np.shares_memory(arrs[i][0], arrs[j][0]):
                    raise V('the arrays returned by two calls share memory: %s / %s' % (arrs[i][1], arrs[j][1]))
            for o, _, where in self.inputs:
                if isinstance(o, np.ndarray) and np.shares_memory(arrs[i][0], o):
                    raise V('the array returned by %s shares memory with an argument (%s)' % (arrs[i][1], where))
        return len(live) + len(arrs)


# ----------------------------------------------------------------------------- strategies (module level: built once)

int_forms = st.sampled_from(INT_FORMS)
narrow_int_forms = st.sampled_from(NARROW_INT)
float_forms = st.sampled_from(FLOAT_FORMS)
scalar_forms = st.sampled_from(SCALAR_FORMS)
index_forms = st.sampled_from(INDEX_FORMS)
mult_forms = st.sampled_from(MULT_FORMS)
store_pos_forms = st.sampled_from(STORE_POS)
store_atype_forms = st.sampled_from(STORE_ATYPE)

# the 24 proper signed permutations of the Cartesian axes (exact images of a cell: no rounding)
def _signed_perms():
    import itertools
    out = []
    for p in itertools.permutations(range(3)):
        for s in itertools.product((1, -1), repeat=3):
            M = np.zeros((3, 3))
            for i in range(3):
                M[i, p[i]] = s[i]
            if round(np.linalg.det(M)) == 1 and not (p == (0, 1, 2) and s == (1, 1, 1)):
                out.append([list(p), list(s)])
    return out


SIGNED_PERMS = _signed_perms()            # 23 (identity left out)
signed_perms = st.sampled_from(SIGNED_PERMS)
# near-symmetric cells: relative size of the perturbation (decades 1e-12 ... 1e-3, staying off Box's 1e-9 clean-up: nothing between
# 1e-10 and 1e-8) and the pattern of the six parameters
pert_exp = st.sampled_from([-12, -11, -7, -6, -6, -5, -5, -4, -3])
pert_pat = st.lists(st.sampled_from([1.0, -1.0, 0.5, -0.5, 0.3, 0.0]), min_size=6, max_size=6)
