"""Rebuild the Cython extensions of the tree under test when their sources changed.

The tree defaults to /repo (the editable install of /venv); VERIF_REPO_ROOT redirects it to
a scratch copy (used only by the sensitivity protocol).  The stamp lives in /verif/.cache,
never in the tree.
"""
import fcntl
import glob
import hashlib
import os
import subprocess
import sys

VERIF = os.path.dirname(os.path.dirname(os.path.abspath(__file__)))
EXT_DIRS = ('atomman/core', 'atomman/defect')


def root():
    return os.path.abspath(os.environ.get('VERIF_REPO_ROOT', '/repo'))


def _sources(r):
    out = []
    for d in EXT_DIRS:
        out += sorted(glob.glob(os.path.join(r, d, '*.pyx')) + glob.glob(os.path.join(r, d, '*.pxd')))
    return out


def _hash(r):
    h = hashlib.sha256()
    for p in _sources(r) + [os.path.join(r, 'setup.py')]:
        h.update(os.path.relpath(p, r).encode())
        with open(p, 'rb') as f:
            h.update(f.read())
    return h.hexdigest()


def _missing(r):
    for p in _sources(r):
        if p.endswith('.pyx'):
            if not glob.glob(p[:-4] + '.*.so'):
                return True
    return False


def ensure_built():
    r = root()
    if r not in sys.path:
        sys.path.insert(0, r)
    cache = os.path.join(VERIF, '.cache')
    os.makedirs(cache, exist_ok=True)
    tag = hashlib.sha1(r.encode()).hexdigest()[:10]
    stamp = os.path.join(cache, 'build-%s.stamp' % tag)
    lock = os.path.join(cache, 'build-%s.lock' % tag)
    with open(lock, 'w') as lf:
        fcntl.flock(lf, fcntl.LOCK_EX)
        want = _hash(r)
        have = open(stamp).read().strip() if os.path.exists(stamp) else ''
        if have != want or _missing(r):
            # build out of place and move the finished extension modules in atomically, so that a check running at the
            # same time never sees a missing or half-written .so; .c files are removed so that Cython regenerates them
            import shutil
            for p in _sources(r):
                if p.endswith('.pyx'):
                    c = p[:-4] + '.c'
                    if os.path.exists(c):
                        os.remove(c)
            blib = os.path.join(cache, 'buildlib-%s' % tag)
            btmp = os.path.join(cache, 'buildtmp-%s' % tag)
            shutil.rmtree(blib, ignore_errors=True); shutil.rmtree(btmp, ignore_errors=True)
            env = dict(os.environ)
            env.pop('PYTHONPATH', None)
            proc = subprocess.run([sys.executable, 'setup.py', 'build_ext', '--build-lib', blib, '--build-temp', btmp, '-j', '8'],
                                  cwd=r, stdout=subprocess.PIPE, stderr=subprocess.STDOUT, env=env)
            built = glob.glob(os.path.join(blib, 'atomman', '*', '*.so'))
            if proc.returncode != 0 or len(built) < sum(1 for p in _sources(r) if p.endswith('.pyx')):
                sys.stderr.write(proc.stdout.decode(errors='replace')[-3000:])
                raise RuntimeError('extension build failed in %s' % r)
            for so in built:
                dst = os.path.join(r, os.path.relpath(so, blib))
                for old in glob.glob(dst.split('.')[0] + '.*.so'):
                    if os.path.abspath(old) != os.path.abspath(dst):
                        os.remove(old)
                tmpdst = dst + '.tmp'
                shutil.copy2(so, tmpdst)
                os.replace(tmpdst, dst)
            shutil.rmtree(blib, ignore_errors=True); shutil.rmtree(btmp, ignore_errors=True)
            if _missing(r):
                raise RuntimeError('extension build incomplete in %s' % r)
            with open(stamp, 'w') as f:
                f.write(want)
    return r


def adopt(dst, src='/repo'):
    """dst is a fresh rsync copy of src (including its compiled .so): carry src's build stamp over, so that dst is only
    rebuilt if its .pyx sources differ from what src's extensions were built from (the stamp is a content hash)."""
    cache = os.path.join(VERIF, '.cache')
    ts = hashlib.sha1(os.path.abspath(src).encode()).hexdigest()[:10]
    td = hashlib.sha1(os.path.abspath(dst).encode()).hexdigest()[:10]
    sp = os.path.join(cache, 'build-%s.stamp' % ts)
    if os.path.exists(sp):
        # the stamp hashes file *paths* too: recompute for dst from src's content equality
        if _hash(src) == open(sp).read().strip().split(':')[-1]:
            with open(os.path.join(cache, 'build-%s.stamp' % td), 'w') as f:
                f.write(open(sp).read())


if __name__ == '__main__':
    print(ensure_built())
