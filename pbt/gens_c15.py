"""Helpers of the C15 check (point defects): exact symmetry images of a cell, narrow / unusual dtypes for what the caller
hands in and for what the system stores, near-threshold numbers, the enumerated option combinations.

Nothing here calls atomman.
"""
import numpy as np
from hypothesis import strategies as st

# ----------------------------------------------------------------------------- exact symmetry images of a cell (class G)
#
# sym = {'m': i, 'p': j, 's': k} applies, after everything gens.cell_vects does, exactly (products with 0 and +-1 only):
#   m  one of the 48 signed permutation matrices M acting on the Cartesian axes: vects -> vects . M^T, origin -> origin . M^T
#      (numbers 0..7 are the diagonal ones: identity, 180 degree turns about x, y, z, the mirrors, the inversion)
#   p  one of the 6 permutations of the cell vectors (rows): swaps and cyclic renamings of a, b, c
#   s  one of the 8 sign patterns of the rows (a, b, c reversed individually, in pairs, all three)
# A LAMMPS-form cell (rot None) becomes lower / upper triangular with negative entries, a signed permutation of an orthogonal
# cell, a left-handed cell; a cell that is "already in normal form" is one image among 2304.

SIGNS8 = [(a, b, c) for a in (1.0, -1.0) for b in (1.0, -1.0) for c in (1.0, -1.0)]
PERMS6 = [(0, 1, 2), (1, 0, 2), (0, 2, 1), (2, 1, 0), (1, 2, 0), (2, 0, 1)]
PERM_ODD = [False, True, True, True, False, False]


def _signed_perms():
    out = []
    for p in PERMS6:
        for sg in SIGNS8:
            M = np.zeros((3, 3))
            for i in range(3):
                M[i, p[i]] = sg[i]
            out.append(M)
    return out


SIGNED_PERMS = _signed_perms()


def sym_parts(sym):
    return int(sym['m']) % 48, int(sym['p']) % 6, int(sym['s']) % 8


def apply_sym(V, o, sym):
    if not sym:
        return V, o
    m, p, k = sym_parts(sym)
    M = SIGNED_PERMS[m]
    V = V @ M.T
    o = o @ M.T
    V = V[list(PERMS6[p])]
    V = V * np.array(SIGNS8[k])[:, None]
    return V + 0.0, o + 0.0          # no negative zeros


def sym_flips_handedness(sym):
    """parity of the operation, from its parts (never from a determinant)"""
    if not sym:
        return False
    m, p, k = sym_parts(sym)
    lh = False
    for sg in (SIGNS8[m % 8], SIGNS8[k]):
        if sg[0] * sg[1] * sg[2] < 0:
            lh = not lh
    if PERM_ODD[m // 8]:
        lh = not lh
    if PERM_ODD[p]:
        lh = not lh
    return lh


def sym_labels(sym, cell):
    labs = set()
    if not sym:
        return labs
    m, p, k = sym_parts(sym)
    if m or p or k:
        labs.add('sym')
        labs.add('sym_diag' if (m < 8 and p == 0) else 'sym_perm')
        if not cell.get('rot'):
            labs.add('sym_exact')           # zeros of the LAMMPS form survive: triangular / permuted cells with signs
        if sym_flips_handedness(sym) != bool(cell.get('lefthanded')):
            labs.add('sym_lefthanded')
    return labs


_sym_m = st.integers(0, 47)
_sym_p = st.integers(0, 5)
_sym_s = st.integers(0, 7)
_sym_kind = st.sampled_from(['diag', 'axes', 'rows', 'any', 'any'])


def draw_sym(draw):
    kind = draw(_sym_kind)
    if kind == 'diag':
        return {'m': draw(st.integers(1, 7)), 'p': 0, 's': 0}
    if kind == 'axes':
        return {'m': draw(st.integers(8, 47)), 'p': 0, 's': 0}
    if kind == 'rows':
        return {'m': 0, 'p': draw(_sym_p), 's': draw(_sym_s)}
    return {'m': draw(_sym_m), 'p': draw(_sym_p), 's': draw(_sym_s)}


# ----------------------------------------------------------------------------- dtypes (class C)

FLOAT_ARG_DTS = ['float32', 'float32', 'float16', '>f8', '>f4', 'ro', 'strided', 'npscalars']
INT_ARG_DTS = ['int8', 'int16', 'uint8', 'uint16', 'int32', '>i4', '>i2', 'uint64', 'bool']
ID_DTS = ['int8', 'uint8', 'int16', 'uint16', 'int32', 'uint32', 'uint64', '>i4', '>i8', 'int64', 'int64']
ATOL_DTS = [None, None, None, None, 'float32', 'float64', '>f8']
KW_DTS = [None, None, None, 'narrow', 'narrow16']
STORE_POS = [None, 'float32', 'float32', 'float32', 'float16', '>f8']
STORE_ATYPE = [None, 'int8', 'uint8', 'int16', 'int32', 'uint64', '>i4']
STORE_F = [None, 'float32', 'float16', '>f8']
STORE_I = [None, 'int8', 'int16', 'int32', '>i4']
STORE_OID = [None, 'int8', 'uint8', 'int16', 'uint16', 'int32', '>i4', 'uint64', 'int64']
LAYOUTS = ['C', 'F', 'strided', 'ro']

_argdt = st.sampled_from([None] * 5 + FLOAT_ARG_DTS + INT_ARG_DTS)
_iddt = st.sampled_from(ID_DTS)
_atoldt = st.sampled_from(ATOL_DTS)
_kwdt = st.sampled_from(KW_DTS)
_store_pos = st.sampled_from(STORE_POS)
_store_atype = st.sampled_from(STORE_ATYPE)
_store_f = st.sampled_from(STORE_F)
_store_i = st.sampled_from(STORE_I)
_store_oid = st.sampled_from(STORE_OID)
_layout = st.sampled_from(LAYOUTS)
_bool = st.booleans()


def draw_store(draw):
    return {'pos': draw(_store_pos), 'atype': draw(_store_atype), 'f': draw(_store_f), 'i': draw(_store_i),
            'oid': draw(_store_oid), 'layout': draw(_layout), 'lim': draw(_bool)}


def np_scalar(v, dt):
    return np.array(v, dtype=dt)[()]


def int_fits(v, dt):
    if dt == 'bool':
        return v in (0, 1)
    info = np.iinfo(np.dtype(dt))
    return info.min <= v <= info.max


def round_to(vec, dt):
    """vec represented in the float dtype dt, as float64; None when that is not a faithful representation at all
    (overflow to inf, a non-zero number flushed to zero or into the subnormal range)"""
    vec = np.asarray(vec, dtype=np.float64)
    with np.errstate(all='ignore'):
        a = vec.astype(dt)
        eff = a.astype(np.float64)
    if not np.all(np.isfinite(eff)):
        return None
    tiny = float(np.finfo(np.dtype(dt)).tiny)
    nz = vec != 0.0
    if np.any(np.abs(eff[nz]) < tiny):
        return None
    return eff


def layout_of(arr, layout):
    """the same values handed over Fortran-ordered / as a strided view of a larger buffer / read-only"""
    if layout == 'F':
        return np.asfortranarray(arr)
    if layout == 'strided':
        big = np.zeros((2 * arr.shape[0],) + arr.shape[1:], dtype=arr.dtype)
        big[::2] = arr
        return big[::2]
    if layout == 'ro':
        arr = arr.copy()
        arr.flags.writeable = False
        return arr
    return arr


# ----------------------------------------------------------------------------- near-threshold numbers (class E)

NEAR_ATOL = [0.999, 1.001, 0.9997, 1.0003, 0.999, 1.001]         # |f - 1| <= 1e-3: inside / outside the search tolerance
TINY_OFF = [1e-9, 1e-6, 1e-3]                                      # almost exactly on the atom
_near_f = st.sampled_from(NEAR_ATOL + NEAR_ATOL + TINY_OFF)
_face_exp = st.integers(3, 12)
_face_side = st.sampled_from([0.0, 1.0])
_face_sign = st.sampled_from([1.0, 1.0, -1.0])
_tiny_db = st.sampled_from([1e-3, 1e-6, 1e-9, 1e-12])


def draw_face_coord(draw):
    """a relative coordinate 1e-12 ... 1e-3 away from a face of the cell (inside, or just outside on the other side)"""
    return draw(_face_side) + draw(_face_sign) * 10.0 ** (-draw(_face_exp))
