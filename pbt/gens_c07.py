"""Generator classes carried over to C07 from the seeded rounds (cases stay JSON-able).

near     atoms 1e-12 .. 1e-3 (box relative) inside / outside a cell face (faces 0 and 1 and their periodic copies -1, 2)
decades  per-atom values whose rows span 12 orders of magnitude (one exponent per atom)
sym      exactly structured cells: LAMMPS cells with tilts of exactly +-half a length, equal lengths, equal tilts,
         an exactly centred origin; POSCAR cells whose axes are a proper signed permutation of a LAMMPS cell's
         (cyclic relabelling, two mirrored axes, upper-triangular with negative entries)
narrow   storage dtypes: float32 / float16 / big-endian double floats, int8 .. uint32 / big-endian integers with values
         up to the dtype limits, numpy scalars for scalar arguments
"""
import itertools

import numpy as np
from hypothesis import strategies as st

# ----------------------------------------------------------------------------- atoms almost on a face
_NEAR_ONE = st.tuples(st.integers(0, 9), st.integers(0, 2), st.sampled_from((0.0, 1.0, 0.0, 1.0, -1.0, 2.0)),
                      st.floats(-12.0, -3.0, allow_nan=False), st.sampled_from((-1.0, 1.0)))
NEAR = st.one_of(st.none(), st.none(), st.none(), st.none(), st.lists(_NEAR_ONE, min_size=1, max_size=3))


def apply_near(rel, nf):
    """relative coordinates with a few components put at face + sign * 10**exponent"""
    if nf is None:
        return rel
    rel = [list(r) for r in rel]
    for i, ax, face, ex, sg in nf:
        rel[i % len(rel)][ax] = face + sg * 10.0 ** ex
    return rel


def near_labels(rel, labels):
    """labels from the numbers themselves (so a replayed / shrunk case is classified the same way)"""
    d = np.abs(np.asarray(rel, dtype=float) - np.round(np.asarray(rel, dtype=float)))
    m = (d > 0) & (d <= 1.001e-3)
    if m.any():
        labels.add('near_face')
        if (d[m] < 1e-8).any():
            labels.add('near_1e-12_1e-8')
        if (d[m] >= 1e-8).any():
            labels.add('near_1e-8_1e-3')
        r = np.asarray(rel, dtype=float)
        if ((r[m] - np.round(r[m])) < 0).any():
            labels.add('near_below_face')
        if ((r[m] - np.round(r[m])) > 0).any():
            labels.add('near_above_face')


# ----------------------------------------------------------------------------- rows spanning many decades
DECADES = st.one_of(st.none(), st.none(), st.none(), st.none(), st.integers(0, 2 ** 31 - 1))
DEC_LO, DEC_HI = -6, 6


def decade_exponents(seed, n):
    """one power of ten per atom, lowest and highest at least 11 apart (None: not a decades case)"""
    if seed is None or n < 2:
        return None
    rng = np.random.default_rng(seed)
    ks = rng.integers(DEC_LO, DEC_HI + 1, size=n)
    i, j = rng.permutation(n)[:2]
    ks[i] = DEC_LO + int(rng.integers(0, 2))
    ks[j] = DEC_HI - int(rng.integers(0, 2))
    return [int(k) for k in ks]


def scale_rows(v, ks):
    def mul(x, f):
        if isinstance(x, list):
            return [mul(y, f) for y in x]
        return x * f
    return [mul(row, 10.0 ** k) for row, k in zip(v, ks)]


# ----------------------------------------------------------------------------- exactly structured cells
SYM = st.one_of(st.none(), st.none(), st.none(), st.none(), st.none(),
                st.tuples(st.sampled_from(('half', 'half', 'cubic', 'centred', 'equal')), st.integers(0, 63)))


def apply_sym(c, sy):
    """LAMMPS cell with exact structure: kind 'half' tilts of exactly +-half the length they are bounded by (bits: which of
    xy xz yz, and their signs), 'cubic' three equal lengths, 'centred' origin = minus half the cell diagonal, 'equal' three
    equal tilts"""
    if sy is None:
        return c
    kind, bits = sy
    c = dict(c)
    if kind == 'half':
        which = (bits & 7) or 7
        for k, (key, lk) in enumerate((('xy', 'lx'), ('xz', 'lx'), ('yz', 'ly'))):
            if which & (1 << k):
                c[key] = (-0.5 if bits & (8 << k) else 0.5) * c[lk]
    elif kind == 'cubic':
        c['ly'] = c['lz'] = c['lx']
        if bits & 1:
            c['xy'] = c['xz'] = c['yz'] = 0.0
    elif kind == 'centred':
        c['origin'] = [-(c['lx'] + c['xy'] + c['xz']) / 2, -(c['ly'] + c['yz']) / 2, -c['lz'] / 2]
    else:
        t = (-1.0 if bits & 1 else 1.0) * min(c['lx'], c['ly']) * (0.25, 0.5, 0.125, 1.0)[(bits >> 1) & 3]
        c['xy'] = c['xz'] = c['yz'] = t
    c['sym'] = kind
    return c


def _proper_signed_permutations():
    out = []
    for perm in itertools.permutations(range(3)):
        for signs in itertools.product((1, -1), repeat=3):
            P = np.zeros((3, 3), dtype=int)
            for i in range(3):
                P[i, perm[i]] = signs[i]
            if round(float(np.linalg.det(P))) == 1:
                out.append(P.tolist())
    out.sort(key=lambda P: P != [[1, 0, 0], [0, 1, 0], [0, 0, 1]])
    return out


PROPER24 = _proper_signed_permutations()      # [0] is the identity
assert len(PROPER24) == 24
PERM = st.one_of(st.none(), st.none(), st.none(), st.none(), st.integers(1, 23))

# ----------------------------------------------------------------------------- storage dtypes
FLOAT_DT = ('float32', 'float16', '>f8', 'float64', 'float64')      # (float64: only the integer columns are narrow)
INT_DT = ('int8', 'int16', 'uint8', 'uint16', 'uint32', '>i4', '>i2', 'int32')


def int_limits(dt):
    ii = np.iinfo(np.dtype(dt))
    return int(ii.min), int(ii.max)


def gen_narrow(rng, allow_f16=True):
    f = FLOAT_DT[int(rng.integers(0, len(FLOAT_DT)))]
    if f == 'float16' and not allow_f16:
        f = 'float32'
    return {'f': f, 'i': INT_DT[int(rng.integers(0, len(INT_DT)))], 'scalar': bool(rng.integers(0, 2))}
