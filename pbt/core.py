"""Runner for the property-based checks of /verif.

One property = a list of Clause objects (module pbt/checks/cNN.py, attribute CLAUSES).
A clause has a generator (Hypothesis strategy producing a JSON-able *case*), or an
enumerator (finite list of cases), and an oracle ``oracle(case) -> iterable of labels``
which raises Violation when the property is broken on that case.

The runner
  * rebuilds the Cython extensions of the tree under test if needed (pbt.build),
  * runs every clause as N forked shards with seeds derived from VERIF_SEED,
  * lets Hypothesis shrink a failing case (time-capped), writes it as a replay file,
  * honours /verif/known_findings.txt (open entries -> KNOWN-FINDING, excluded, counted),
  * writes /verif/evidence/<id>.json,
  * exit 0 held / 1 VIOLATION / 2 harness error.
"""
import hashlib
import json
import math
import multiprocessing as mp
import os
import sys
import time
import traceback

VERIF = os.path.dirname(os.path.dirname(os.path.abspath(__file__)))
NPROC = int(os.environ.get('VERIF_NPROC', '16'))


def outdir(kind):
    """evidence/ and replays/ belong to runs against /repo itself; runs against a scratch tree
    (VERIF_REPO_ROOT, sensitivity protocol) write under .cache/scratch-<kind>/ instead."""
    root = os.path.abspath(os.environ.get('VERIF_REPO_ROOT', '/repo'))
    d = os.path.join(VERIF, kind) if root == '/repo' else os.path.join(VERIF, '.cache', 'scratch-' + kind)
    os.makedirs(d, exist_ok=True)
    return d


# --------------------------------------------------------------------------- basic types

class Violation(Exception):
    """The property is broken on this case."""
    def __init__(self, detail, key=None):
        super().__init__(detail)
        self.detail = str(detail)
        self.key = key


class HarnessError(Exception):
    """The check itself is broken (never reported as a violation)."""


def require(cond, detail, key=None):
    if not cond:
        raise Violation(detail() if callable(detail) else detail, key)


class Clause:
    def __init__(self, name, oracle, strategy=None, enumerate=None,
                 quick=1000, thorough=20000, nontrivial='nt', min_share=None,
                 max_share=None, nshards=None, desc='', time_share=1.0,
                 max_examples_per_shard=None):
        self.name = name
        self.oracle = oracle
        self.strategy = strategy        # callable() -> hypothesis strategy
        self.enumerate = enumerate      # callable(tier) -> list of cases
        self.budget = {'quick': quick, 'thorough': thorough}
        self.nontrivial = nontrivial    # label name or callable(labels)->bool
        self.min_share = min_share or {}
        self.max_share = max_share or {}
        self.nshards = nshards
        self.desc = desc
        self.time_share = time_share

    def is_nt(self, labels):
        if callable(self.nontrivial):
            return bool(self.nontrivial(labels))
        return self.nontrivial in labels


def jdump(obj):
    return json.dumps(obj, sort_keys=True, separators=(',', ':'), default=_jdefault)


def _jdefault(o):
    import numpy as np
    if isinstance(o, np.ndarray):
        return o.tolist()
    if isinstance(o, (np.integer,)):
        return int(o)
    if isinstance(o, (np.floating,)):
        return float(o)
    if isinstance(o, (np.bool_,)):
        return bool(o)
    if isinstance(o, (set, frozenset, tuple)):
        return list(o)
    if isinstance(o, bytes):
        return o.decode('latin-1')
    raise TypeError(type(o))


def digest(case):
    return hashlib.sha1(jdump(case).encode()).digest()[:8]


def derive_seed(*parts):
    h = hashlib.sha256(':'.join(str(p) for p in parts).encode()).digest()
    return int.from_bytes(h[:8], 'big') >> 1


# --------------------------------------------------------------------------- known findings

def load_known(prop):
    """returns (open {key: text}, fixed [text])"""
    path = os.path.join(VERIF, 'known_findings.txt')
    opened, fixed = {}, []
    if not os.path.exists(path):
        return opened, fixed
    for line in open(path):
        line = line.strip()
        if not line or line.startswith('#'):
            continue
        if line.startswith('open:'):
            rest = line[5:].strip()
            toks = rest.split(None, 2)
            if len(toks) >= 2 and toks[0] == 'property=' + prop and toks[1].startswith('key='):
                opened[toks[1][4:]] = toks[2] if len(toks) > 2 else ''
        elif line.startswith('fixed:'):
            rest = line[6:].strip()
            if rest.split(None, 1)[0] == 'property=' + prop:
                fixed.append(rest)
    return opened, fixed


# --------------------------------------------------------------------------- shard execution

def _trim(case, limit=2500):
    s = jdump(case)
    if len(s) <= limit:
        return json.loads(s)
    return {'_truncated_case_json': s[:limit] + '...', '_len': len(s)}


def call_oracle(clause, case):
    try:
        return clause.oracle(case)
    except Violation:
        raise
    except (KeyboardInterrupt, SystemExit, MemoryError, HarnessError):
        raise
    except Exception as e:
        # an exception escaping from the code under test on an in-domain input is a violation
        # ("handled or refused cleanly"); one raised by the harness itself is a harness error
        tb = traceback.extract_tb(e.__traceback__)
        rt = os.path.abspath(os.environ.get('VERIF_REPO_ROOT', '/repo')) + os.sep
        fr = [f for f in tb if os.path.abspath(f.filename).startswith(rt)]
        if not fr or type(e).__module__.startswith('hypothesis'):
            raise
        raise Violation('unexpected %s: %s (at %s:%d in %s)' % (type(e).__name__, str(e)[:300],
                        os.path.relpath(fr[-1].filename, rt), fr[-1].lineno, fr[-1].name)) from None


def _run_shard(task):
    """Runs in a forked worker.  Returns a plain dict."""
    (prop, mod_name, cname, shard, n, seed, tier, deadline, known_keys, shrink_cap) = task[:10]
    trace_path = task[10] if len(task) > 10 else None
    t0 = time.time()
    res = dict(clause=cname, shard=shard, evaluations=0, labels={}, nt=set(), samples=[],
               failure=None, known={}, skipped_budget=0, error=None, wall=0.0, seed=seed,
               known_cases={})
    try:
        import importlib
        mod = importlib.import_module(mod_name)
        clause = [c for c in mod.CLAUSES if c.name == cname][0]
        state = dict(first_fail_t=None, best=None, capped=False)
        # every shard evaluates a few cases even when it only starts after the soft wall deadline (queued behind others on a
        # loaded machine), so that no clause ends up unevaluated
        floor_cases = 3 if clause.enumerate is not None else 20

        def body(case):
            now = time.time()
            if state['capped'] or (state['first_fail_t'] is None and now > deadline and res['evaluations'] >= floor_cases):
                res['skipped_budget'] += 1
                return
            if state['first_fail_t'] is not None and now - state['first_fail_t'] > shrink_cap:
                state['capped'] = True
                return
            res['evaluations'] += 1
            if trace_path:
                with open(trace_path, 'w') as tf:      # last case started (read back if this process dies)
                    tf.write(jdump(case))
            try:
                labels = call_oracle(clause, case)
            except Violation as v:
                if v.key is not None and v.key in known_keys:
                    res['known'][v.key] = res['known'].get(v.key, 0) + 1
                    res['known_cases'].setdefault(v.key, _trim(case))
                    return
                size = len(jdump(case))
                if state['best'] is None or size <= state['best'][0]:
                    state['best'] = (size, json.loads(jdump(case)), v.detail, v.key)
                if state['first_fail_t'] is None:
                    state['first_fail_t'] = now
                raise
            labels = set(labels or ())
            for l in labels:
                res['labels'][l] = res['labels'].get(l, 0) + 1
            if clause.is_nt(labels):
                res['nt'].add(digest(case))
                if len(res['samples']) < 2 and shard < 3:
                    res['samples'].append(_trim(case))
            elif not res['samples'] and shard == 0:
                res['samples'].append(_trim(case))

        if clause.enumerate is not None:
            cases = clause.enumerate(tier)
            mine = cases[shard::n]          # n = number of shards for enumerations
            for case in mine:
                try:
                    body(case)
                except Violation:
                    break
        else:
            import hypothesis
            from hypothesis import given, settings, HealthCheck, Phase
            phases = (Phase.explicit, Phase.generate, Phase.shrink)
            st = settings(max_examples=n, database=None, deadline=None, derandomize=False,
                          report_multiple_bugs=False, phases=phases,
                          suppress_health_check=[HealthCheck.too_slow, HealthCheck.data_too_large,
                                                 HealthCheck.large_base_example,
                                                 HealthCheck.filter_too_much])
            # the budget is spent in slices (fresh derived seed per slice) so that a shard stops generating soon after the
            # soft wall deadline instead of letting Hypothesis draw and skip every remaining example
            strat = clause.strategy()
            chunk = max(25, min(400, -(-n // 4)))
            done, k = 0, 0
            while done < n and state['best'] is None and (time.time() <= deadline or res['evaluations'] < floor_cases):
                m = min(chunk, n - done) if time.time() <= deadline else min(floor_cases + 5, n - done)
                stk = settings(st, max_examples=m)
                test = hypothesis.seed(derive_seed(seed, 'slice', k))(stk(given(strat)(body)))
                try:
                    test()
                except Violation:
                    pass
                except BaseException as e:       # Flaky after cap, etc.
                    if state['best'] is None:
                        raise
                done += m
                k += 1
            if done < n and state['best'] is None:
                res['skipped_budget'] += n - done
        if state['best'] is not None:
            size, case, detail, key = state['best']
            res['failure'] = dict(case=case, detail=detail, key=key, shrink_capped=state['capped'])
    except BaseException as e:
        res['error'] = ''.join(traceback.format_exception(type(e), e, e.__traceback__))[-4000:]
    res['nt'] = list(res['nt'])
    res['wall'] = time.time() - t0
    return res


# --------------------------------------------------------------------------- property run

def _child(conn, task):
    try:
        conn.send(_run_shard(task))
    finally:
        conn.close()


def _run_tasks(tasks):
    """run shards in forked processes, at most NPROC at a time; returns (results, [(task, exitcode) of workers that died])"""
    ctx = mp.get_context('fork')
    pending = list(tasks)
    running = []
    results, crashed = [], []
    while pending or running:
        while pending and len(running) < NPROC:
            t = pending.pop(0)
            a, b = ctx.Pipe(duplex=False)
            pr = ctx.Process(target=_child, args=(b, t))
            pr.start()
            b.close()
            running.append((pr, a, t))
        still = []
        progressed = False
        for pr, a, t in running:
            got = None
            if a.poll(0):
                try:
                    got = a.recv()
                except EOFError:
                    got = None
                pr.join()
                a.close()
                if got is None:
                    crashed.append((t, pr.exitcode))
                else:
                    results.append(got)
                progressed = True
            elif not pr.is_alive():
                # died without sending anything (poll once more: data may have arrived just before exit)
                if a.poll(0.05):
                    still.append((pr, a, t))
                    continue
                pr.join()
                a.close()
                crashed.append((t, pr.exitcode))
                progressed = True
            else:
                still.append((pr, a, t))
        running = still
        if not progressed:
            time.sleep(0.02)
    return results, crashed


def run_property(prop, mod_name, tier, seed):
    from . import build
    t0 = time.time()
    root = build.ensure_built()
    import importlib
    mod = importlib.import_module(mod_name)
    import atomman
    if not os.path.abspath(atomman.__file__).startswith(os.path.abspath(root) + os.sep):
        raise HarnessError('atomman imported from %s, expected under %s' % (atomman.__file__, root))
    clauses = list(mod.CLAUSES)
    only = os.environ.get('VERIF_CLAUSES')
    if only:
        clauses = [c for c in clauses if c.name in only.split(',')]
    known_open, known_fixed = load_known(prop)
    tier_wall = float(os.environ.get('VERIF_WALL', getattr(mod, 'WALL', {}).get(tier, 75 if tier == 'quick' else 600)))
    deadline = time.time() + tier_wall          # the soft budget starts after the extension build
    shrink_cap = 45 if tier == 'quick' else 240
    scale = float(os.environ.get('VERIF_SCALE', '1'))

    tasks = []
    for c in clauses:
        n = max(1, int(c.budget[tier] * scale))
        if c.enumerate is not None:
            ns = c.nshards or NPROC
            for s in range(ns):
                tasks.append((prop, mod_name, c.name, s, ns, 0, tier, deadline, set(known_open), shrink_cap))
        else:
            ns = c.nshards or min(NPROC, max(1, n // 8))
            per = int(math.ceil(n / ns))
            for s in range(ns):
                tasks.append((prop, mod_name, c.name, s, per, derive_seed(seed, prop, c.name, s),
                              tier, deadline, set(known_open), shrink_cap))
    # interleave clauses so that all make progress before the wall budget
    tasks.sort(key=lambda t: (t[3], t[2]))
    results, crashed = _run_tasks(tasks)
    crash_reports = []
    for task, code in crashed:
        # a worker died (segfault/abort in compiled code, os._exit): run that shard again with the current case traced
        tp = os.path.join(VERIF, '.cache', 'trace-%s-%s-%d-%d.json' % (prop, task[2], task[3], os.getpid()))
        os.makedirs(os.path.dirname(tp), exist_ok=True)
        if os.path.exists(tp):
            os.remove(tp)
        r2, c2 = _run_tasks([tuple(task) + (tp,)])
        case = None
        if os.path.exists(tp):
            try:
                case = json.load(open(tp))
            except Exception:
                case = None
            os.remove(tp)
        if c2 and case is not None:
            crash_reports.append((task[2], case, 'worker process died (exit code %s) while evaluating this case: the code under '
                                  'test crashed the interpreter' % c2[0][1], task[5], task[3]))
        elif c2:
            crash_reports.append((task[2], None, 'worker died (exit code %s) before evaluating any case' % c2[0][1], task[5], task[3]))
        else:
            results.extend(r2)          # did not crash again: use the second run's result

    # ---- aggregate
    per = {}
    for c in clauses:
        per[c.name] = dict(evaluations=0, labels={}, nt=set(), samples=[], failures=[], known={},
                           skipped_budget=0, errors=[], desc=c.desc, exhaustive=c.enumerate is not None,
                           known_cases={})
    for r in results:
        a = per[r['clause']]
        a['evaluations'] += r['evaluations']
        a['skipped_budget'] += r['skipped_budget']
        for k, v in r['labels'].items():
            a['labels'][k] = a['labels'].get(k, 0) + v
        a['nt'].update(bytes(x) for x in r['nt'])
        if len(a['samples']) < 4:
            a['samples'].extend(r['samples'][:4 - len(a['samples'])])
        if r['failure']:
            f = dict(r['failure']); f['seed'] = r['seed']; f['shard'] = r['shard']
            a['failures'].append(f)
        for k, v in r['known'].items():
            a['known'][k] = a['known'].get(k, 0) + v
        for k, v in r['known_cases'].items():
            a['known_cases'].setdefault(k, v)
        if r['error']:
            a['errors'].append(r['error'])

    status = 0
    out = []
    harness = []
    nviol = 0
    seen_known = {}
    for c in clauses:
        a = per[c.name]
        for e in sorted(set(a['errors']))[:2]:
            harness.append('clause %s (%d shards): %s' % (c.name, len(a['errors']), e[-1500:]))
        for f in sorted(a['failures'], key=lambda f: len(jdump(f['case'])))[:1]:
            nviol += 1
            path = os.path.join(outdir('replays'), '%s-%s-%d.json' % (prop, c.name, seed))
            with open(path, 'w') as fh:
                json.dump(dict(property=prop, clause=c.name, case=f['case'], detail=f['detail'],
                               key=f['key'], seed=seed, tier=tier), fh, indent=1, default=_jdefault)
            out.append('VIOLATION property=%s replay=%s' % (prop, path))
            out.append('  clause=%s key=%s detail=%s' % (c.name, f['key'], f['detail'][:600]))
        for k, v in a['known'].items():
            seen_known[k] = seen_known.get(k, 0) + v
        # non-vacuity
        ev = a['evaluations']
        ev_all = ev
        ev = ev - sum(a['known'].values())      # cases excluded by an open known finding carry no labels
        # an enumeration cut short by the wall budget is not a representative sample: its guards are not applied
        if not a['failures'] and not a['errors'] and ev >= 500 and a['skipped_budget'] < ev_all and not (c.enumerate is not None and a['skipped_budget'] > 0):
            for lab, share in c.min_share.items():
                got = a['labels'].get(lab, 0) / ev
                if got < share:
                    harness.append('clause %s: non-vacuity guard: label %r share %.4f < %.4f (n=%d)'
                                   % (c.name, lab, got, share, ev))
            for lab, share in c.max_share.items():
                got = a['labels'].get(lab, 0) / ev
                if got > share:
                    harness.append('clause %s: rate guard: label %r share %.4f > %.4f (n=%d)'
                                   % (c.name, lab, got, share, ev))
        if ev_all == 0 and not a['errors']:
            harness.append('clause %s: no case was evaluated' % c.name)

    seen_crash = set()
    for cname, case, detail, sseed, shard in crash_reports:
        if case is not None and cname in seen_crash:
            continue
        seen_crash.add(cname)
        if case is None:
            harness.append('clause %s shard %d: %s' % (cname, shard, detail))
            continue
        nviol += 1
        per[cname]['failures'].append(dict(case=case, detail=detail, key=None))
        path = os.path.join(outdir('replays'), '%s-%s-%d-crash.json' % (prop, cname, seed))
        with open(path, 'w') as fh:
            json.dump(dict(property=prop, clause=cname, case=case, detail=detail, key=None, seed=seed, tier=tier), fh, indent=1, default=_jdefault)
        out.append('VIOLATION property=%s replay=%s' % (prop, path))
        out.append('  clause=%s key=None detail=%s' % (cname, detail))

    for k, text in known_open.items():
        out.append('KNOWN-FINDING: property=%s %s [key=%s; met %d times this run, excluded from the search]'
                   % (prop, text, k, seen_known.get(k, 0)))

    # ---- evidence
    evaluations = sum(a['evaluations'] for a in per.values())
    nt_all = set()
    for cname, a in per.items():
        nt_all.update((cname.encode() + d) for d in a['nt'])
    samples = []
    for cname, a in per.items():
        for s in a['samples'][:3]:
            samples.append(dict(clause=cname, case=s))
    cov = dict(
        evaluations=evaluations,
        distinct_nontrivial=len(nt_all),
        rule=getattr(mod, 'RULE', ''),
        samples=samples,
        exhaustive=bool(per) and all(a['exhaustive'] for a in per.values()),
        clauses={cname: dict(evaluations=a['evaluations'], distinct_nontrivial=len(a['nt']),
                             labels=dict(sorted(a['labels'].items())), desc=a['desc'],
                             exhaustive=a['exhaustive'], skipped_after_wall_budget=a['skipped_budget'],
                             excluded_known={k: v for k, v in a['known'].items()},
                             excluded_known_examples=a['known_cases'],
                             violations=len(a['failures']))
                 for cname, a in per.items()},
        known_findings_open=sorted(known_open),
        known_findings_fixed=known_fixed,
        tree=root,
    )
    ev = dict(property_id=prop, tier=tier, seed=int(seed), level='exploration', coverage=cov,
              assumptions=list(getattr(mod, 'ASSUMPTIONS', [])), wall_s=round(time.time() - t0, 2),
              violations=nviol)
    with open(os.path.join(outdir('evidence'), prop + '.json'), 'w') as fh:
        json.dump(ev, fh, indent=1, default=_jdefault)

    for line in out:
        print(line)
    summ = ' '.join('%s=%d/%d' % (cn, len(a['nt']), a['evaluations']) for cn, a in per.items())
    print('%s %s seed=%d evaluations=%d distinct_nontrivial=%d wall=%.1fs [%s]'
          % (prop, tier, seed, evaluations, len(nt_all), time.time() - t0, summ))
    if nviol:
        return 1
    if harness:
        for h in harness:
            print('HARNESS-ERROR: ' + h, file=sys.stderr)
        return 2
    return 0


def replay(prop, mod_name, path):
    from . import build
    build.ensure_built()
    import importlib
    mod = importlib.import_module(mod_name)
    rec = json.load(open(path))
    clause = [c for c in mod.CLAUSES if c.name == rec['clause']][0]
    known_open, _ = load_known(prop)
    def _do():
        try:
            labels = call_oracle(clause, rec['case'])
        except Violation as v:
            if v.key is not None and v.key in known_open:
                print('KNOWN-FINDING: property=%s %s [key=%s]' % (prop, known_open[v.key], v.key))
                return 0
            print('VIOLATION property=%s replay=%s' % (prop, os.path.abspath(path)))
            print('  clause=%s key=%s detail=%s' % (clause.name, v.key, v.detail[:2000]))
            return 1
        print('%s replay held: clause=%s labels=%s' % (prop, clause.name, sorted(labels or ())))
        return 0

    # in a child process, so that a case that crashes the interpreter is still reported
    sys.stdout.flush()
    pid = os.fork()
    if pid == 0:
        code = 2
        try:
            code = _do()
            sys.stdout.flush()
        except BaseException:
            traceback.print_exc()
        finally:
            os._exit(code)
    _, status = os.waitpid(pid, 0)
    if os.WIFSIGNALED(status):
        print('VIOLATION property=%s replay=%s' % (prop, os.path.abspath(path)))
        print('  clause=%s key=None detail=the replayed case crashed the interpreter (signal %d)' % (clause.name, os.WTERMSIG(status)))
        return 1
    return os.WEXITSTATUS(status)


def main(argv=None):
    argv = list(sys.argv[1:] if argv is None else argv)
    if not argv:
        print('usage: check <Cnn> quick|thorough | check <Cnn> --replay <file>', file=sys.stderr)
        return 2
    prop = argv[0].upper()
    mod_name = 'pbt.checks.' + prop.lower()
    try:
        if len(argv) >= 3 and argv[1] == '--replay':
            return replay(prop, mod_name, argv[2])
        tier = argv[1] if len(argv) > 1 else os.environ.get('VERIF_TIER', 'quick')
        if tier not in ('quick', 'thorough'):
            raise HarnessError('unknown tier %r' % tier)
        seed = int(os.environ.get('VERIF_SEED', '1') or 1)
        return run_property(prop, mod_name, tier, seed)
    except SystemExit:
        raise
    except BaseException as e:
        traceback.print_exc()
        print('HARNESS-ERROR: %s' % e, file=sys.stderr)
        return 2


if __name__ == '__main__':
    sys.exit(main())
