"""Shared Hypothesis strategies.  Everything produced is JSON-able (dicts, lists, numbers, strings).

Cells are described by a dict
   {'lx','ly','lz','xy','xz','yz','origin':[3], 'rot': None | [axis(3), angle_deg], 'lefthanded': bool}
from which ``cell_vects`` (pure numpy, independent of atomman) derives the 3x3 row-vector matrix.
"""
import functools
import math

import numpy as np
from hypothesis import strategies as st


@functools.lru_cache(maxsize=None)
def fl(a, b):
    return st.floats(min_value=a, max_value=b, allow_nan=False, allow_infinity=False, allow_subnormal=False)


@functools.lru_cache(maxsize=None)
def nice(a, b, digits=4):
    """floats in [a,b] rounded to a few digits: generic but printable values"""
    return fl(a, b).map(lambda x: min(b, max(a, round(x, digits))))


@functools.lru_cache(maxsize=None)
def dyadic(lo, hi, bits=4):
    """multiples of 2**-bits in [lo, hi] (exactly representable)"""
    s = 2 ** bits
    return st.integers(int(math.ceil(lo * s)), int(math.floor(hi * s))).map(lambda k: k / s)


# ----------------------------------------------------------------------------- rotations

def rotation_matrix(axis, angle_deg):
    """Rodrigues formula; proper rotation about axis (need not be unit) by angle in degrees."""
    a = np.asarray(axis, dtype=float)
    a = a / np.linalg.norm(a)
    t = math.radians(angle_deg)
    K = np.array([[0, -a[2], a[1]], [a[2], 0, -a[0]], [-a[1], a[0], 0]])
    return np.eye(3) + math.sin(t) * K + (1 - math.cos(t)) * (K @ K)


@st.composite
def rotations(draw, min_angle=0.0, max_angle=180.0):
    axis = draw(st.lists(st.integers(-5, 5), min_size=3, max_size=3).filter(lambda v: any(v)))
    ang = draw(nice(min_angle, max_angle, 3))
    return [axis, ang]


# ----------------------------------------------------------------------------- cells

FAMILIES = ('cubic', 'tetragonal', 'orthorhombic', 'hexagonal', 'rhombohedral', 'monoclinic', 'triclinic')


def abc_to_lammps(a, b, c, alpha, beta, gamma):
    """independent re-derivation of the LAMMPS triangular form from lattice parameters (degrees)"""
    ca, cb, cg = (math.cos(math.radians(x)) for x in (alpha, beta, gamma))
    sg = math.sin(math.radians(gamma))
    lx = a
    xy = b * cg
    ly = b * sg
    xz = c * cb
    yz = c * (ca - cb * cg) / sg
    lz2 = c * c - xz * xz - yz * yz
    return lx, ly, lz2 ** 0.5 if lz2 > 0 else float('nan'), xy, xz, yz


def realisable(alpha, beta, gamma, margin=1e-2):
    ca, cb, cg = (math.cos(math.radians(x)) for x in (alpha, beta, gamma))
    return 1 - ca * ca - cb * cb - cg * cg + 2 * ca * cb * cg > margin


@st.composite
def family_params(draw, family=None):
    """lattice parameters (a,b,c,alpha,beta,gamma) of a crystal family with generic, non-coincident values"""
    fam = family or draw(st.sampled_from(FAMILIES))
    a = draw(nice(2.0, 9.0, 3))
    rb = draw(nice(1.15, 1.6, 3))
    rc = draw(nice(1.75, 2.4, 3))
    if fam == 'cubic':
        p = (a, a, a, 90.0, 90.0, 90.0)
    elif fam == 'tetragonal':
        p = (a, a, round(a * rb, 4), 90.0, 90.0, 90.0)
    elif fam == 'orthorhombic':
        p = (a, round(a * rb, 4), round(a * rc, 4), 90.0, 90.0, 90.0)
    elif fam == 'hexagonal':
        p = (a, a, round(a * rc, 4), 90.0, 90.0, 120.0)
    elif fam == 'rhombohedral':
        al = draw(st.one_of(nice(35.0, 85.0, 2), nice(95.0, 115.0, 2)))
        p = (a, a, a, al, al, al)
    elif fam == 'monoclinic':
        be = draw(st.one_of(nice(95.0, 135.0, 2), nice(50.0, 85.0, 2)))
        p = (a, round(a * rb, 4), round(a * rc, 4), 90.0, be, 90.0)
    else:
        for _ in range(20):
            al, be, ga = (draw(st.one_of(nice(55.0, 85.0, 2), nice(95.0, 125.0, 2))) for _ in range(3))
            if len({al, be, ga}) == 3 and realisable(al, be, ga, 0.05):
                break
        else:
            al, be, ga = 81.0, 104.0, 97.0
        p = (a, round(a * rb, 4), round(a * rc, 4), al, be, ga)
    return {'family': fam, 'abc': list(p)}


@functools.lru_cache(maxsize=None)
def _tilt_or_zero(maxtilt):
    return st.one_of(nice(-maxtilt, maxtilt, 3), st.just(0.0))


_scale_exp = st.sampled_from([0, 0, 0, 0, -10, -8, -5, -3, -1, 1, 3])
_kinds4 = st.sampled_from(['tri', 'tri', 'ortho', 'family'])
_kinds3 = st.sampled_from(['tri', 'tri', 'ortho'])
_bool = st.booleans()


@st.composite
def cells(draw, rotated=True, lefthanded=False, origin=True, lmin=0.5, lmax=50.0, maxtilt=1.5,
          families=True, zero_tilt_share=True, scaled=False):
    """A conditioned non-degenerate cell."""
    kind = draw(_kinds4 if families else _kinds3)
    if kind == 'family':
        fp = draw(family_params())
        lx, ly, lz, xy, xz, yz = abc_to_lammps(*fp['abc'])
    else:
        lx = draw(nice(lmin, lmax, 3)); ly = draw(nice(lmin, lmax, 3)); lz = draw(nice(lmin, lmax, 3))
        if kind == 'ortho':
            xy = xz = yz = 0.0
        else:
            ts = _tilt_or_zero(maxtilt) if zero_tilt_share else nice(-maxtilt, maxtilt, 3)
            tl = [draw(ts) for _ in range(3)]
            xy, xz, yz = tl[0] * lx, tl[1] * lx, tl[2] * ly
    org = [0.0, 0.0, 0.0]
    if origin and draw(_bool):
        org = [draw(nice(-100.0, 100.0, 3)) for _ in range(3)]
    rot = None
    if rotated and draw(_bool):
        rot = draw(rotations(min_angle=1.0))
    lh = bool(lefthanded and draw(_bool))
    c = {'lx': lx, 'ly': ly, 'lz': lz, 'xy': xy, 'xz': xz, 'yz': yz, 'origin': org, 'rot': rot,
         'lefthanded': lh}
    if scaled:
        # overall length scale (vectors and origin): atomman's Box is scale free (relative 1e-9 clean-up only)
        c['scale'] = 10.0 ** draw(_scale_exp)
    return c


def cell_vects(c):
    V = np.array([[c['lx'], 0.0, 0.0], [c['xy'], c['ly'], 0.0], [c['xz'], c['yz'], c['lz']]], dtype=float)
    if c.get('lefthanded'):
        V[2] = -V[2]
    if c.get('rot'):
        R = rotation_matrix(*c['rot'])
        V = V @ R.T
    return V * c.get('scale', 1.0)


def cell_origin(c):
    return np.array(c['origin'], dtype=float) * c.get('scale', 1.0)


def cell_cond(c):
    return float(np.linalg.cond(cell_vects(c)))


def cell_is_tilted(c):
    return bool(c['xy'] or c['xz'] or c['yz'])


def cell_labels(c):
    labs = set()
    if cell_is_tilted(c):
        labs.add('tilted')
    if c.get('rot'):
        labs.add('rotated')
    if any(c['origin']):
        labs.add('origin')
    if c.get('lefthanded'):
        labs.add('lefthanded')
    if c.get('scale', 1.0) != 1.0:
        labs.add('scaled')
    return labs


def make_box(c):
    """atomman.Box from a cell dict, through the 'vects' parameter set"""
    import atomman as am
    return am.Box(vects=cell_vects(c), origin=cell_origin(c))


PBCS = [[bool(i & 1), bool(i & 2), bool(i & 4)] for i in range(8)]
pbcs = st.sampled_from(PBCS)


@functools.lru_cache(maxsize=None)
def relpoints(n_min=1, n_max=8, lo=-2.0, hi=3.0, special=True):
    """lists of relative coordinates, generic values mixed with exact 0, 1/2, 1, integers"""
    coord = st.one_of(nice(lo, hi, 4), nice(0.0, 1.0, 4),
                      st.sampled_from([0.0, 0.5, 1.0, 0.25, 0.75]) if special else nice(lo, hi, 4))
    return st.lists(st.lists(coord, min_size=3, max_size=3), min_size=n_min, max_size=n_max)


# ----------------------------------------------------------------------------- SPD / symmetric

@st.composite
def sym3(draw, scale=1.0):
    v = [draw(nice(-scale, scale, 5)) for _ in range(6)]
    return [[v[0], v[3], v[4]], [v[3], v[1], v[5]], [v[4], v[5], v[2]]]
