#!/bin/bash
# setup_cmd: offline; make sure hypothesis is importable in /venv, atheris in /verif/.deps (optional), build atomman's extensions.
set -e
cd "$(dirname "$0")"
export PIP_NO_INDEX=1
if ! /venv/bin/python -c "import hypothesis" 2>/dev/null; then
  /venv/bin/pip install --no-index --find-links /opt/veriftools/wheels hypothesis
fi
# atheris is only used by the thorough/quick fuzz clause of C09; its absence is recorded in the evidence, never an error
if ! PYTHONPATH=/verif/.deps /venv/bin/python -c "import atheris" 2>/dev/null; then
  /venv/bin/pip install --no-index --find-links /opt/veriftools/wheels --target /verif/.deps atheris >/dev/null 2>&1 || echo "note: atheris not installable; C09 falls back to Hypothesis only"
fi
/venv/bin/python -m pbt.build
/venv/bin/python -c "import sys; sys.path.insert(0,'/repo'); import atomman, hypothesis; print('atomman', atomman.__version__, 'hypothesis', hypothesis.__version__)" 2>/dev/null
mkdir -p evidence replays
