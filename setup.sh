#!/bin/bash
# setup_cmd: offline; make sure hypothesis is importable in /venv, build atomman's extensions, self-test the runner.
set -e
cd "$(dirname "$0")"
export PIP_NO_INDEX=1
if ! /venv/bin/python -c "import hypothesis" 2>/dev/null; then
  /venv/bin/pip install --no-index --find-links /opt/veriftools/wheels hypothesis
fi
/venv/bin/python -m pbt.build
/venv/bin/python -c "import sys; sys.path.insert(0,'/repo'); import atomman, hypothesis; print('atomman', atomman.__version__, 'hypothesis', hypothesis.__version__)" 2>/dev/null
mkdir -p evidence replays
