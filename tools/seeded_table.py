#!/venv/bin/python
"""Regenerates /verif/seeded/INDEX.md from seeded/*/meta.json (what each seeded change is, what it needs, what caught it)."""
import glob, json, os, re
V = os.path.dirname(os.path.dirname(os.path.abspath(__file__)))
rows = []
stats = {}
for d in sorted(glob.glob(os.path.join(V, 'seeded', 'C*'))):
    sid = os.path.basename(d)
    m = json.load(open(os.path.join(d, 'meta.json')))
    rnd = {'s': 1, 'b': 2, 'c': 3, 'd': 4}[sid.split('-')[1][0]]
    cr = m.get('check_result', {})
    caught_now = None
    clause = ''
    for tier, r in cr.items():
        if r.get('exit') == 1:
            caught_now = True
            mm = re.search(r'clause=(\S+)', ' '.join(r.get('lines', [])))
            clause = mm.group(1) if mm else ''
    hist = m.get('history', '')
    first = 'missed' if hist.upper().startswith(('MISSED', 'NOT CAUGHT')) else 'caught'
    if hist.upper().startswith('NOT CAUGHT'):
        final = 'not caught (deliberately)'
    elif 'pending' in hist:
        final = 'pending'
    elif first == 'missed':
        final = 'caught after strengthening'
    else:
        final = 'caught' + (' (%s)' % clause if clause else '')
    st = stats.setdefault(rnd, {'n': 0, 'first_caught': 0, 'final_caught': 0})
    st['n'] += 1; st['first_caught'] += first == 'caught'; st['final_caught'] += final.startswith('caught')
    clean = lambda t: re.sub(r'\s+', ' ', str(t)).replace('|', '/')
    rows.append('| %s | %d | %s | %s | %s | %s |' % (sid, rnd, clean(m.get('summary', ''))[:260], clean(m.get('needs', ''))[:220], final, clean(hist)[:300]))
out = ['# Seeded changes (independent sub-agents; property text + scratch worktree only)', '',
       'Each directory holds `patch.diff`, `demo.py` (exits 1 with the change, 0 without), `meta.json` (summary, what it needs to',
       'manifest, my confirmation run: demo on both trees + the full repository test suite on both trees, and the check result).',
       'Round 1 (`-s`): free choice.  Round 2 (`-b`), round 3 (`-c`) and round 4 (`-d`): steered towards object/process histories, unusual input',
       'forms, rarely used entry points, cooperating edits, small systematic errors.  "first" = the check as it stood when the change',
       'arrived.', '']
for r in sorted(stats):
    s = stats[r]
    out.append('* round %d: %d changes, %d caught by the check as it stood, %d caught now' % (r, s['n'], s['first_caught'], s['final_caught']))
out += ['', '| id | round | change | needs | status | note |', '|---|---|---|---|---|---|'] + rows
open(os.path.join(V, 'seeded', 'INDEX.md'), 'w').write('\n'.join(out) + '\n')
print({r: stats[r] for r in sorted(stats)})
