#!/venv/bin/python
"""usage: tools/land_fix.py <diff|-> "<commit message starting with fix:>" <key> [<key> ...]
Applies the diff to /repo (skip with '-' if already applied in the working tree), commits it, and turns the
known_findings.txt lines `open: property=P key=<key> text` into `fixed: property=P <hash> text`."""
import subprocess, sys
import os
diff, msg, keys = sys.argv[1], sys.argv[2], sys.argv[3:]
if diff != '-': diff = os.path.abspath(diff)
assert msg.startswith('fix:')
if diff != '-':
    subprocess.check_call(['git', '-C', '/repo', 'apply', '--whitespace=nowarn', diff])
subprocess.check_call(['git', '-C', '/repo', 'commit', '-qam', msg])
h = subprocess.run(['git', '-C', '/repo', 'rev-parse', '--short', 'HEAD'], stdout=subprocess.PIPE).stdout.decode().strip()
p = '/verif/known_findings.txt'
out = []
hit = set()
for l in open(p).read().splitlines():
    if l.startswith('open:'):
        toks = l[5:].split(None, 2)
        if len(toks) >= 2 and toks[1].startswith('key=') and toks[1][4:] in keys:
            hit.add(toks[1][4:])
            l = 'fixed: %s %s [was key %s] %s' % (toks[0], h, toks[1][4:], toks[2] if len(toks) > 2 else '')
    out.append(l)
open(p, 'w').write('\n'.join(out) + '\n')
print(h, msg[:70], 'keys closed:', sorted(hit), 'NOT FOUND:', sorted(set(keys) - hit))
