#!/venv/bin/python
"""Confirm and evaluate a seeded change delivered by an independent sub-agent.

usage: tools/try_seed.py <deliver_dir> <i> <Cnn> <seed_id> [--tier quick|thorough|both] [--no-store]
Steps (all in scratch copies of /repo's working tree under /var/tmp, removed afterwards):
  1. patch applies; package imports; extensions rebuild if a .pyx changed
  2. demo exits 0 on the pristine copy and non-zero on the changed copy
  3. the repository's test suite gives the same set of failing tests on both
  4. the property's check (quick, then thorough if quick missed) is run against the changed copy
Stores /verif/seeded/<seed_id>/{patch.diff,demo.py,meta.json} when 1-3 hold.
"""
import glob, hashlib, json, os, re, shutil, subprocess, sys, tempfile, time

PY = '/venv/bin/python'

def sh(cmd, cwd=None, env=None, timeout=3600):
    r = subprocess.run(cmd, cwd=cwd, env=env, stdout=subprocess.PIPE, stderr=subprocess.STDOUT, timeout=timeout)
    return r.returncode, r.stdout.decode(errors='replace')

def copy_repo():
    d = tempfile.mkdtemp(prefix='atomman-seed-', dir='/var/tmp')
    subprocess.check_call(['rsync', '-a', '--exclude', 'doc', '--exclude', '.git', '--exclude', '__pycache__', '--exclude', '_deliver', '/repo/', d + '/'])
    return d

def failing_tests(tree):
    env = dict(os.environ, PYTHONPATH=tree)
    rc, out = sh([PY, '-m', 'pytest', '-q', '-p', 'no:cacheprovider', '--timeout=900', '-rfE', 'tests'], cwd=tree, env=env)
    fails = sorted(set(re.findall(r'^(?:FAILED|ERROR) (\S+)', out, flags=re.M)))
    m = re.search(r'(\d+) passed', out)
    return fails, int(m.group(1)) if m else -1

def main():
    a = sys.argv[1:]
    deliver, i, prop, sid = a[0], a[1], a[2], a[3]
    tier = a[a.index('--tier') + 1] if '--tier' in a else 'both'
    patch = os.path.join(deliver, 'change%s.diff' % i)
    demo = os.path.join(deliver, 'demo%s.py' % i)
    meta = os.path.join(deliver, 'meta%s.json' % i)
    res = {'seed_id': sid, 'property': prop, 'source': patch}
    pristine, changed = copy_repo(), copy_repo()
    try:
        rc, out = sh(['patch', '-p1', '-s', '-i', os.path.abspath(patch)], cwd=changed)
        if rc != 0:
            print('SEED %s: patch does not apply to /repo working tree: %s' % (sid, out[-400:])); return 3
        touched_pyx = '.pyx' in open(patch).read()
        sys.path.insert(0, '/verif'); from pbt import build as _b; _b.adopt(pristine); _b.adopt(changed)
        envp = dict(os.environ, VERIF_REPO_ROOT=pristine)
        envc = dict(os.environ, VERIF_REPO_ROOT=changed)
        sh([PY, '-m', 'pbt.build'], cwd='/verif', env=envp)
        rc, out = sh([PY, '-m', 'pbt.build'], cwd='/verif', env=envc)
        if rc != 0:
            print('SEED %s: changed tree does not build: %s' % (sid, out[-400:])); return 3
        d0, o0 = sh([PY, os.path.abspath(demo)], cwd=pristine, env=dict(os.environ, PYTHONPATH=pristine), timeout=900)
        d1, o1 = sh([PY, os.path.abspath(demo)], cwd=changed, env=dict(os.environ, PYTHONPATH=changed), timeout=900)
        res['demo_pristine_exit'], res['demo_changed_exit'] = d0, d1
        f0, p0 = failing_tests(pristine)
        f1, p1 = failing_tests(changed)
        res['tests_pristine'] = {'passed': p0, 'failing': f0}
        res['tests_changed'] = {'passed': p1, 'failing': f1}
        ok = (d0 == 0 and d1 != 0 and f0 == f1 and p0 == p1)
        res['confirmed'] = ok
        print('SEED %s confirm: demo pristine=%d changed=%d ; tests pristine %d passed/%d failing, changed %d passed/%d failing -> %s'
              % (sid, d0, d1, p0, len(f0), p1, len(f1), 'CONFIRMED' if ok else 'REJECTED'))
        if not ok:
            print('  demo output on changed tree: ' + o1[-500:].replace('\n', ' | '))
            print('  demo output on pristine tree: ' + o0[-300:].replace('\n', ' | '))
            if f0 != f1: print('  failing-test difference:', sorted(set(f1) ^ set(f0))[:10])
            return 4
        caught = {}
        for t in (['quick', 'thorough'] if tier == 'both' else [tier]):
            t0 = time.time()
            rc, out = sh(['/verif/check', prop, t], cwd='/verif', env=dict(envc, VERIF_SEED=os.environ.get('VERIF_SEED', '1')), timeout=7200)
            viol = [l for l in out.splitlines() if l.startswith('VIOLATION') or l.startswith('  clause=')]
            caught[t] = {'exit': rc, 'wall_s': round(time.time() - t0), 'lines': [v[:300] for v in viol[:4]]}
            print('SEED %s check %s %s: exit=%d %s' % (sid, prop, t, rc, ' | '.join(v[:220] for v in viol[:2]) if viol else out.strip().splitlines()[-1][:300]))
            if rc == 1:
                break
        res['check'] = caught
        if '--no-store' not in a:
            dst = os.path.join('/verif/seeded', sid)
            os.makedirs(dst, exist_ok=True)
            shutil.copy(patch, os.path.join(dst, 'patch.diff'))
            shutil.copy(demo, os.path.join(dst, 'demo.py'))
            m = {}
            try: m = json.load(open(meta))
            except Exception: pass
            m.update({'property': prop, 'confirmation': {k: res[k] for k in ('demo_pristine_exit', 'demo_changed_exit', 'tests_pristine', 'tests_changed')},
                      'ran': 'tools/try_seed.py (scratch copies of /repo working tree at %s; demo on both; full pytest on both; ./check %s via VERIF_REPO_ROOT)' % (
                          subprocess.run(['git', '-C', '/repo', 'rev-parse', '--short', 'HEAD'], stdout=subprocess.PIPE).stdout.decode().strip(), prop),
                      'check_result': caught})
            json.dump(m, open(os.path.join(dst, 'meta.json'), 'w'), indent=1)
        return 0
    finally:
        for d in (pristine, changed):
            shutil.rmtree(d, ignore_errors=True)
            tag = hashlib.sha1(d.encode()).hexdigest()[:10]
            for ext in ('stamp', 'lock'):
                try: os.remove('/verif/.cache/build-%s.%s' % (tag, ext))
                except OSError: pass

sys.exit(main())
