#!/bin/bash
# usage: tools/sweep.sh "<seeds>" [ids...]   runs ./check <id> quick for each seed with the full budget (wall budget lifted); prints one line each
seeds=$1; shift
ids=${@:-$(cat pbt/checks/INTEGRATED)}
for s in $seeds; do for p in $ids; do
  out=$(VERIF_SEED=$s VERIF_WALL=${SWEEP_WALL:-900} VERIF_NPROC=${VERIF_NPROC:-8} ./check $p ${SWEEP_TIER:-quick} 2>&1); rc=$?
  echo "SWEEP seed=$s $p exit=$rc $(echo "$out" | grep -v KNOWN-FINDING | tail -1 | cut -c1-200)"
  if [ $rc -ne 0 ]; then echo "$out" | grep -v '^KNOWN' | head -8 | cut -c1-600; fi
done; done
