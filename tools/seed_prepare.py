#!/venv/bin/python
"""usage: tools/seed_prepare.py <Cnn> <name> [N]  -> git worktree /tmp/seed-<name> of /repo HEAD (extensions built), prompt rendered to <wt>/_PROMPT.txt
The sub-agent is given only that file (property text + worktree), nothing from /verif."""
import json, os, subprocess, sys
V = os.path.dirname(os.path.dirname(os.path.abspath(__file__)))
pid, name = sys.argv[1], sys.argv[2]
n = sys.argv[3] if len(sys.argv) > 3 else '3'
wt = subprocess.run([os.path.join(V, 'tools/seed_worktree.sh'), name], stdout=subprocess.PIPE, check=True).stdout.decode().strip().splitlines()[-1]
p = [json.loads(l) for l in open(os.path.join(V, 'properties.jsonl')) if json.loads(l)['id'] == pid][0]
t = open(os.path.join(V, 'tools/SEED_PROMPT.txt')).read()
t = t.replace('{WT}', wt).replace('{ID}', pid).replace('{STATEMENT}', p['statement']).replace('{QUANT}', p['quantifier']['text']).replace('{N}', n)
extra = os.environ.get('SEED_EXTRA', '')
if extra:
    t += '\n\nAdditional guidance: ' + extra + '\n'
open(os.path.join(wt, '_PROMPT.txt'), 'w').write(t)
print(wt)
