#!/venv/bin/python
"""Rewrites the count columns of the table in mutants/RESULTS.md from mutants/<Cnn>/ (the survivors column is kept)."""
import glob, os, re
V = os.path.dirname(os.path.dirname(os.path.abspath(__file__)))
p = os.path.join(V, 'mutants', 'RESULTS.md')
out = []
for l in open(p).read().splitlines():
    m = re.match(r'\| (C\d\d) \| \d+ \| \d+ \| \d+ \|(.*)\|$', l)
    if m:
        d = os.path.join(V, 'mutants', m.group(1))
        nd = len([f for f in glob.glob(d + '/*.diff') if not os.path.basename(f).startswith('FIX_')])
        txt = open(os.path.join(d, 'RESULTS.txt'), errors='replace').read() if os.path.exists(os.path.join(d, 'RESULTS.txt')) else ''
        txt = '\n'.join(x for x in txt.splitlines() if 'FIX_' not in x or 'killed=yes' in x.lower())
        y = len(re.findall(r'killed=yes', txt, re.I)); n = len(re.findall(r'killed=no\b', txt, re.I))
        l = '| %s | %d | %d | %d |%s|' % (m.group(1), nd, y, n, m.group(2))
    out.append(l)
open(p, 'w').write('\n'.join(out) + '\n')
