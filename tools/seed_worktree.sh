#!/bin/bash
# usage: tools/seed_worktree.sh <name>   -> creates git worktree /tmp/seed-<name> of /repo HEAD and builds extensions there
set -e
d=/tmp/seed-$1
git -C /repo worktree add -f --detach $d HEAD >/dev/null 2>&1
cd $d && /venv/bin/python setup.py build_ext --inplace -j 8 >/dev/null 2>&1
mkdir -p $d/_deliver
echo $d
