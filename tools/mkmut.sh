#!/bin/bash
# usage: tools/mkmut.sh <Cnn> <name> <file relative to repo> <sed expression> [<file2> <sed2> ...]
# makes /verif/mutants/<Cnn>/<name>.diff from /repo's working tree (scratch git copy under /var/tmp, removed)
set -e
prop=$1; name=$2; shift 2
d=$(mktemp -d /var/tmp/mkmut-XXXXXX)
trap "rm -rf $d" EXIT
mkdir -p $d/a
cd /repo
files=()
args=("$@")
for ((i=0;i<${#args[@]};i+=2)); do
  f=${args[i]}; e=${args[i+1]}
  mkdir -p $d/a/$(dirname $f) $d/b/$(dirname $f)
  [ -f $d/a/$f ] || { cp $f $d/a/$f; cp $f $d/b/$f; }
  sed -i -E "$e" $d/b/$f
done
mkdir -p /verif/mutants/$prop
cd $d
if diff -ru a b > /verif/mutants/$prop/$name.diff; then echo "NO CHANGE for $name"; rm /verif/mutants/$prop/$name.diff; exit 1; fi
echo "wrote mutants/$prop/$name.diff ($(grep -c '^[-+][^-+]' /verif/mutants/$prop/$name.diff) changed lines)"
