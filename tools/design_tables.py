#!/venv/bin/python
"""Regenerates the findings table of DESIGN.md section 8.1 (between the AUTO markers) from known_findings.txt."""
import re, subprocess, os
V = os.path.dirname(os.path.dirname(os.path.abspath(__file__)))
rows_fixed, rows_open = [], []
for l in open(os.path.join(V, 'known_findings.txt')):
    l = l.strip()
    if l.startswith('fixed:'):
        toks = l[6:].split(None, 2)
        prop, commit, text = toks[0].split('=')[1], toks[1], toks[2] if len(toks) > 2 else ''
        text = re.sub(r'^\[was key [^\]]*\]\s*', '', text)
        text = re.sub(r'\s*\((DESIGN[^)]*|repair[^)]*|same root cause[^)]*)\)', '', text)
        rows_fixed.append((prop, commit, text.replace('|', '/')))
    elif l.startswith('open:'):
        toks = l[5:].split(None, 2)
        rows_open.append((toks[0].split('=')[1], toks[1][4:], (toks[2] if len(toks) > 2 else '').replace('|', '/')))
rows_fixed.sort(key=lambda r: r[0])
out = ['<!-- AUTO-FINDINGS-BEGIN (tools/design_tables.py) -->', '',
       '%d repaired findings (one `fix:` commit each; a few commits close two keys of one root cause, and two keys needed two commits):' % len(rows_fixed), '',
       '| property | commit | what failed |', '|---|---|---|']
for p, c, t in rows_fixed:
    out.append('| %s | %s | %s |' % (p, c, t[:330] + ('…' if len(t) > 330 else '')))
out += ['', 'Open findings (recorded, not repaired; each prints a KNOWN-FINDING line and its input class is excluded and counted):', '']
if rows_open:
    out += ['| property | key | what fails |', '|---|---|---|']
    for p, k, t in rows_open:
        out.append('| %s | `%s` | %s |' % (p, k, t[:600]))
else:
    out.append('none')
out += ['', '<!-- AUTO-FINDINGS-END -->']
p = os.path.join(V, 'DESIGN.md')
s = open(p).read()
a, b = s.index('<!-- AUTO-FINDINGS-BEGIN'), s.index('<!-- AUTO-FINDINGS-END -->') + len('<!-- AUTO-FINDINGS-END -->')
open(p, 'w').write(s[:a] + '\n'.join(out) + s[b:])
print('fixed', len(rows_fixed), 'open', len(rows_open))
