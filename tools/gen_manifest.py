#!/venv/bin/python
"""Regenerates /verif/MANIFEST.json from the check modules present in pbt/checks."""
import json, os, sys
VERIF = os.path.dirname(os.path.dirname(os.path.abspath(__file__)))
sys.path.insert(0, VERIF)

TEXT = {
 'C01': ("generated cells (all five parameter sets, rotated/tilted/shifted, crystal families, dyadic exact cells), point arrays of several shapes and a history clause over setters, judged by independent numpy formulas and round trips",
         "round-trip + reference-formula oracles over generated cells; exact boundary cases by dyadic construction"),
}
NOTE = "exploration only: no absence claim; numpy/scipy/pandas trusted; tolerances stated in pbt/checks/<id>.py; see DESIGN.md section 4"

def main():
    props = [json.loads(l) for l in open(os.path.join(VERIF, 'properties.jsonl'))]
    checks, na = [], []
    for p in props:
        pid = p['id']
        modfile = os.path.join(VERIF, 'pbt', 'checks', pid.lower() + '.py')
        integrated = open(os.path.join(VERIF, 'pbt', 'checks', 'INTEGRATED')).read().split()
        if os.path.exists(modfile) and pid in integrated:
            import importlib
            mod = importlib.import_module('pbt.checks.' + pid.lower())
            text = getattr(mod, 'LEVEL_TEXT', None) or TEXT.get(pid, ('', ''))[0]
            tech = getattr(mod, 'TECHNIQUE', None) or TEXT.get(pid, ('', ''))[1]
            checks.append({
                'property_id': pid,
                'quick_cmd': './check %s quick' % pid,
                'thorough_cmd': './check %s thorough' % pid,
                'evidence_file': 'evidence/%s.json' % pid,
                'replay_cmd_template': './check %s --replay {path}' % pid,
                'engine': 'pbt',
                'level_claimed': {'category': 'exploration',
                                  'text': 'Property-based exploration: ' + text + '. Clauses: ' + ', '.join(c.name for c in mod.CLAUSES) + '.',
                                  'design_ref': 'DESIGN.md section 4, ' + pid},
                'level_note': NOTE,
                'technique': 'property-based testing (Hypothesis, 16 seeded shards): ' + tech,
            })
        else:
            na.append({'property_id': pid, 'reason': 'check not yet built (work in progress; the technique applies, see DESIGN.md section 4 %s)' % pid})
    man = {
        'version': 1,
        'setup_cmd': './setup.sh',
        'hooks': {'guard': 'ATOMMAN_VERIF', 'enable': 'no source hooks are needed: every observation point is public API (the variable is unused)',
                  'baseline_off_cmd': 'cd /repo && /venv/bin/python -m pytest -ra -q -p no:cacheprovider --timeout=900 --continue-on-collection-errors',
                  'source_commits': [], 'add_only': True},
        'engines': [{'name': 'pbt', 'path': 'pbt/', 'serves_properties': [c['property_id'] for c in checks],
                     'kind_free_text': 'Hypothesis-driven generated-input search against independent oracles; sharded over 16 processes; replay files are JSON cases'}],
        'checks': checks,
        'notes': 'All checks: ./check <id> quick|thorough, honour VERIF_SEED; exit 0 held / 1 VIOLATION / 2 harness error. known_findings.txt lists open/fixed findings.',
        'not_applicable': na,
    }
    with open(os.path.join(VERIF, 'MANIFEST.json'), 'w') as f:
        json.dump(man, f, indent=1)
    import subprocess
    code = ("import json, jsonschema, sys\n"
            "man = json.load(open('%s/MANIFEST.json'))\n"
            "jsonschema.validate(man, json.load(open('/root/.vp/MANIFEST.schema.json')))\n"
            "import os\n"
            "for c in man['checks']:\n"
            "    ef = os.path.join('%s', c['evidence_file'])\n"
            "    if os.path.exists(ef): jsonschema.validate(json.load(open(ef)), json.load(open('/root/.vp/EVIDENCE.schema.json')))\n"
            "    else: print('note: no evidence file yet for', c['property_id'])\n") % (VERIF, VERIF)
    subprocess.check_call(['python3-vt', '-c', code])
    print('MANIFEST ok: %d checks, %d not_applicable' % (len(checks), len(na)))

main()
