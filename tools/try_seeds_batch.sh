#!/bin/bash
# usage: tools/try_seeds_batch.sh <Cnn>[:<round letter>[:<n>]] ...   evaluates /tmp/seed-<Cnn><letter>/_deliver/change{1..n}, 4 jobs in parallel
# seed ids: Cnn-s<i> for round a, Cnn-<letter><i> otherwise
mkdir -p /tmp/seedlogs
jobs=()
for spec in "$@"; do
  IFS=: read p r n <<< "$spec"; r=${r:-a}; n=${n:-4}
  for i in $(seq 1 $n); do
    if [ "$r" = a ]; then sid=${p}-s$i; else sid=${p}-${r}$i; fi
    jobs+=("$p $r $i $sid")
  done
done
printf '%s\n' "${jobs[@]}" | xargs -P 4 -L 1 bash -c 'p=$0; r=$1; i=$2; sid=$3; VERIF_NPROC=4 /verif/tools/try_seed.py /tmp/seed-${p}${r}/_deliver $i $p $sid --tier quick > /tmp/seedlogs/$sid.log 2>&1'
for j in "${jobs[@]}"; do set -- $j; grep -h "^SEED" /tmp/seedlogs/$4.log | cut -c1-400; done
