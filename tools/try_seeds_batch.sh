#!/bin/bash
# usage: tools/try_seeds_batch.sh <Cnn> [<Cnn> ...]   evaluates /tmp/seed-<Cnn>a/_deliver/change{1..4} with 4 jobs in parallel
mkdir -p /tmp/seedlogs
for p in "$@"; do for i in 1 2 3 4; do echo "$p $i"; done; done | xargs -P 4 -L 1 bash -c 'p=$0; i=$1; VERIF_NPROC=4 /verif/tools/try_seed.py /tmp/seed-${p}a/_deliver $i $p ${p}-s$i --tier quick > /tmp/seedlogs/${p}-s$i.log 2>&1'
for p in "$@"; do for i in 1 2 3 4; do grep -h "^SEED" /tmp/seedlogs/${p}-s$i.log | cut -c1-400; done; done
