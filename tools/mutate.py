#!/venv/bin/python
"""Sensitivity protocol: apply one patch to a scratch copy of /repo, (optionally) run the baseline tests,
run a property's check against the scratch copy (VERIF_REPO_ROOT), remove the copy.

usage: tools/mutate.py <patch.diff> <Cnn> [quick|thorough] [--tests] [--keep] [--seed N]
prints one line:  MUTANT <patch> <Cnn> tests=<pass|fail|skipped> check_exit=<n> killed=<yes|no> wall=<s>
"""
import os, shutil, subprocess, sys, tempfile, time

def main():
    args = sys.argv[1:]
    patch = os.path.abspath(args[0]); prop = args[1]
    tier = 'quick'
    for a in args[2:]:
        if a in ('quick', 'thorough'):
            tier = a
    seed = '1'
    if '--seed' in args:
        seed = args[args.index('--seed') + 1]
    t0 = time.time()
    scratch = tempfile.mkdtemp(prefix='atomman-mut-', dir='/var/tmp')
    try:
        subprocess.check_call(['rsync', '-a', '--exclude', 'doc', '--exclude', '.git', '--exclude', '__pycache__', '/repo/', scratch + '/'])
        r = subprocess.run(['patch', '-p1', '-s', '-i', patch], cwd=scratch, stdout=subprocess.PIPE, stderr=subprocess.STDOUT)
        if r.returncode != 0:
            print('MUTANT %s %s patch-failed: %s' % (os.path.basename(patch), prop, r.stdout.decode()[-300:]))
            return 3
        env = dict(os.environ, VERIF_REPO_ROOT=scratch, VERIF_SEED=seed)
        sys.path.insert(0, '/verif'); from pbt import build as _b; _b.adopt(scratch)
        tests = 'skipped'
        if '--tests' in args:
            # build first so the tests see the mutant's extensions
            subprocess.run(['/venv/bin/python', '-m', 'pbt.build'], cwd='/verif', env=env, stdout=subprocess.DEVNULL)
            tr = subprocess.run(['/venv/bin/python', '-m', 'pytest', '-q', '-x', '-p', 'no:cacheprovider', '--timeout=900',
                                 '--deselect', 'tests/dump_load/test_atom_data.py', 'tests'],
                                cwd=scratch, env=dict(env, PYTHONPATH=scratch), stdout=subprocess.PIPE, stderr=subprocess.STDOUT)
            tail = tr.stdout.decode(errors='replace').strip().splitlines()[-1:] or ['']
            tests = 'pass' if tr.returncode == 0 else 'fail(%s)' % tail[0][:80]
        cr = subprocess.run(['/verif/check', prop, tier], cwd='/verif', env=env, stdout=subprocess.PIPE, stderr=subprocess.STDOUT)
        out = cr.stdout.decode(errors='replace')
        viol = [l for l in out.splitlines() if l.startswith('VIOLATION') or l.startswith('  clause=')]
        print('MUTANT %s %s tier=%s tests=%s check_exit=%d killed=%s wall=%.0fs %s' % (
            os.path.basename(patch), prop, tier, tests, cr.returncode, 'yes' if cr.returncode == 1 else 'NO',
            time.time() - t0, (' | '.join(v[:200] for v in viol[:2])) if viol else out.strip().splitlines()[-1][:300] if out.strip() else ''))
        return 0
    finally:
        if '--keep' not in args:
            shutil.rmtree(scratch, ignore_errors=True)
            tag = __import__('hashlib').sha1(scratch.encode()).hexdigest()[:10]
            for ext in ('stamp', 'lock'):
                try: os.remove('/verif/.cache/build-%s.%s' % (tag, ext))
                except OSError: pass

sys.exit(main())
