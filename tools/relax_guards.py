#!/venv/bin/python
"""usage: tools/relax_guards.py [--apply]  - for every min_share guard whose observed share (evidence/<id>.json, quick tier) is
below 2 x the guard, proposes guard := observed/2 (rounded down to 2 significant digits) and, with --apply, rewrites the literal
in pbt/checks/<id>.py when it is unique in the file ('label': value).  max_share guards: proposes observed*2 when observed > guard/2."""
import sys, json, importlib, math, os, re
sys.path.insert(0, os.path.dirname(os.path.dirname(os.path.abspath(__file__))))
apply = '--apply' in sys.argv
def down(x):
    if x <= 0: return 0.0
    e = math.floor(math.log10(x)); m = math.floor(x / 10 ** e * 10) / 10
    return round(m * 10 ** e, 6)
for pid in open('pbt/checks/INTEGRATED').read().split():
    mod = importlib.import_module('pbt.checks.' + pid.lower())
    ev = json.load(open('evidence/%s.json' % pid))
    if ev.get('tier') != 'quick': continue
    path = 'pbt/checks/%s.py' % pid.lower(); src = open(path).read(); changed = False
    for c in mod.CLAUSES:
        e = ev['coverage'].get('clauses', {}).get(c.name)
        if not e: continue
        n = (e.get('evaluations') or 0) - sum((e.get('excluded_known') or {}).values())
        if n < 200: continue
        for lab, ms in (c.min_share or {}).items():
            sh = e.get('labels', {}).get(lab, 0) / n
            if sh < 2 * ms and ms < 0.75:
                new = down(sh / 2)
                if new >= ms: continue
                pat = re.compile(r"(['\"]%s['\"]\s*:\s*)%s(?![\d.])" % (re.escape(lab), re.escape(repr(ms))))
                hits = pat.findall(src)
                print('%s %-14s %-34s share %.4f guard %.4f -> %.4f  (%d literal%s)' % (pid, c.name, lab, sh, ms, new, len(hits), '' if len(hits) == 1 else 's'))
                if apply and len(hits) >= 1:
                    # every occurrence of this label:value pair gets the lower value (clauses sharing a label share the class)
                    src = pat.sub(lambda m: m.group(1) + repr(new), src); changed = True
    if changed:
        open(path, 'w').write(src)
