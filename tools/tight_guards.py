#!/venv/bin/python
"""usage: tools/tight_guards.py [ratio]  - lists non-vacuity guards whose observed share (latest evidence/<id>.json) is within
`ratio` (default 1.4) of the guard: candidates for a harness error (exit 2) at another seed.  A binomial 4-sigma bound is shown too."""
import sys, json, importlib, math, os
sys.path.insert(0, os.path.dirname(os.path.dirname(os.path.abspath(__file__))))
ratio = float(sys.argv[1]) if len(sys.argv) > 1 else 1.4
for pid in open('pbt/checks/INTEGRATED').read().split():
    mod = importlib.import_module('pbt.checks.' + pid.lower())
    ev = json.load(open('evidence/%s.json' % pid))
    cl = ev['coverage'].get('clauses', {})
    for c in mod.CLAUSES:
        e = cl.get(c.name)
        if not e: continue
        n = (e.get("evaluations") or 0) - sum((e.get("excluded_known") or {}).values())
        labels = e.get('labels', {})
        for lab, ms in (getattr(c, 'min_share', None) or {}).items():
            k = labels.get(lab, 0)
            if not n: continue
            sh = k / n
            sig = math.sqrt(max(ms * (1 - ms), 1e-12) / n)
            if sh < ms * ratio or sh - 4 * sig < ms:
                print('%s %-14s %-28s share %.4f guard %.4f n=%d (4sigma=%.4f)' % (pid, c.name, lab, sh, ms, n, 4 * sig))
        for lab, ms in (getattr(c, 'max_share', None) or {}).items():
            k = labels.get(lab, 0)
            if not n: continue
            sh = k / n
            if sh > ms / ratio:
                print('%s %-14s %-28s share %.4f MAX guard %.4f n=%d' % (pid, c.name, lab, sh, ms, n))
