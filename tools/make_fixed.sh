#!/bin/bash
# usage: tools/make_fixed.sh [dir]   -> scratch copy of /repo's working tree with every mutants/*/FIX_*.diff applied
# (candidate repairs; used only to look *behind* a defect that blocks a check; never evidence)
d=${1:-/var/tmp/atomman-fixed}
rm -rf "$d"; mkdir -p "$d"
rsync -a --exclude doc --exclude .git --exclude __pycache__ /repo/ "$d"/
cd "$d"
for p in /verif/mutants/*/FIX_*.diff; do
  if patch -p1 -s -N --dry-run -i "$p" >/dev/null 2>&1; then patch -p1 -s -N -i "$p" && echo "applied $p"; else echo "SKIP (does not apply / already in tree) $p"; fi
done
VERIF_REPO_ROOT="$d" /venv/bin/python -m pbt.build >/dev/null 2>&1 || (cd /verif && VERIF_REPO_ROOT="$d" /venv/bin/python -m pbt.build)
echo "$d"
